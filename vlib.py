"""Shared machinery of the /verif checks: building the harness from /repo's working tree,
running TLC, extracting exported behaviours, matching known findings, writing evidence.

Exit-code contract (DESIGN section 10): 0 = the property held on everything explored
(possibly with KNOWN-FINDING / DRIFT lines); 1 = at least one unlisted violation, each as
`VIOLATION property=<id> replay=<path>`; 2 = tool error / timeout / vacuity guard."""
import json, os, re, subprocess, sys, time, hashlib, shutil

ROOT = os.path.dirname(os.path.abspath(__file__))
# the tree under test: /repo, or the private copy tools/mutant_sandbox.sh made next to a private copy of /verif
REPO = os.environ.get("XV_REPO", "/repo")
SPEC = os.path.join(ROOT, "spec")
HARNESS = os.path.join(ROOT, "harness")
WORK = os.path.join(ROOT, "work")
REPLAYS = os.path.join(ROOT, "replays")
EVIDENCE = os.path.join(ROOT, "evidence")
NCPU = os.cpu_count() or 4
TLA_CP = "/opt/veriftools/tla/tla2tools.jar:/opt/veriftools/tla/CommunityModules-deps.jar"


class ToolError(Exception):
    pass


def log(*a):
    print(*a, file=sys.stderr, flush=True)


def workdir(pid, sub=None):
    d = os.path.join(WORK, pid) if sub is None else os.path.join(WORK, pid, sub)
    os.makedirs(d, exist_ok=True)
    return d


def clean_workdir(pid):
    d = os.path.join(WORK, pid)
    if os.path.isdir(d):
        shutil.rmtree(d, ignore_errors=True)
    os.makedirs(d, exist_ok=True)
    return d


# ------------------------------------------------------------------ harness
_built = {}


def build_harness(profile="dev"):
    """cargo build of the harness (path dependency on /repo, feature verif_hooks): rebuilds
    from /repo's current working tree on every invocation."""
    if profile in _built:
        return _built[profile]
    cmd = ["cargo", "build", "--offline", "--quiet"]
    if profile == "release":
        cmd.append("--release")
    env = dict(os.environ, CARGO_NET_OFFLINE="true", RUSTFLAGS=os.environ.get("RUSTFLAGS", "") + " -Awarnings")
    t0 = time.time()
    p = subprocess.run(cmd, cwd=HARNESS, env=env, stdout=subprocess.PIPE, stderr=subprocess.STDOUT, text=True)
    if p.returncode != 0:
        log(p.stdout[-4000:])
        raise ToolError("harness build failed (does /repo still compile?)")
    log(f"[build] harness ({profile}) {time.time()-t0:.1f}s")
    path = os.path.join(HARNESS, "target", "release" if profile == "release" else "debug", "xv")
    _built[profile] = path
    return path


# cases during whose replay the code under test panicked outside every guarded section of the harness (collected by
# for_each_replay_line in the harness, which goes on with the next case); Report.finish() turns them into violations
UNGUARDED = []


def xv(args, profile="dev", timeout=1800, stdin=None, check=True):
    exe = build_harness(profile)
    pf = os.path.join(WORK, f"unguarded-{os.getpid()}.ndjson")
    if os.path.exists(pf):
        os.remove(pf)
    p = subprocess.run([exe] + args, stdout=subprocess.PIPE, stderr=subprocess.PIPE, text=True, timeout=timeout, input=stdin,
                       env=dict(os.environ, XV_PANIC_FILE=pf))
    if os.path.exists(pf):
        for line in open(pf):
            if line.strip():
                UNGUARDED.append(dict(json.loads(line), cmd=args[0]))
        os.remove(pf)
    if check and p.returncode != 0:
        log(p.stderr[-3000:])
        raise ToolError(f"xv {' '.join(args[:2])} exited {p.returncode}")
    return p


def xv_json(args, **kw):
    p = xv(args, **kw)
    last = [l for l in p.stdout.strip().splitlines() if l.strip()]
    return json.loads(last[-1]) if last else {}


# ------------------------------------------------------------------ TLC
def run_tlc(module, cfg_text, wd, workers=None, timeout=900, env_extra=None, simulate=None, seed=None,
            depth_first=False, coverage=False, name=None, heap="8g", to_file=None):
    """Run TLC on spec/<module>.tla (path relative to spec/) with the given cfg text.
    Returns dict(out, generated, distinct, depth, ok, violated, wall)."""
    os.makedirs(wd, exist_ok=True)
    name = name or os.path.basename(module)
    src = os.path.join(SPEC, module + ".tla")
    modname = os.path.basename(module)
    # TLC wants the cfg next to a module of the same directory: copy the root module into wd
    shutil.copy(src, os.path.join(wd, modname + ".tla"))
    cfgp = os.path.join(wd, name + ".cfg")
    with open(cfgp, "w") as f:
        f.write(cfg_text)
    libs = os.pathsep.join([SPEC, os.path.join(SPEC, "mc"), os.path.join(SPEC, "trace")])
    jopts = f"-DTLA-Library={libs} -Xss1g -Xmx{heap}"
    if depth_first:
        jopts += " -Dtlc2.tool.queue.IStateQueue=StateDeque"
    env = dict(os.environ, JAVA_TOOL_OPTIONS=jopts)
    if env_extra:
        env.update(env_extra)
    w = workers or max(1, NCPU - 2)
    meta = os.path.join(wd, "tlc_" + name)
    shutil.rmtree(meta, ignore_errors=True)
    # java is started directly (same class path as the `tlc` wrapper) so that -Xss also applies to the
    # main thread, where TLC evaluates constant definitions and initial states
    cmd = ["timeout", str(timeout), "java", "-Xss1g", "-Dfile.encoding=UTF-8", "-Dsun.stdout.encoding=UTF-8", "-Dstdout.encoding=UTF-8", "-XX:+UseParallelGC", "-cp", TLA_CP, "tlc2.TLC", "-workers", str(w), "-metadir", meta, "-cleanup", "-noGenerateSpecTE",
           "-config", cfgp]
    if coverage:
        cmd += ["-coverage", "1"]
    if simulate:
        cmd += ["-simulate", simulate]
    if seed is not None:
        cmd += ["-seed", str(seed)]
    cmd.append(os.path.join(wd, modname + ".tla"))
    t0 = time.time()
    if to_file:
        # large exports: stream TLC's output to a file, keep only its head and tail in memory
        with open(to_file, "w") as fo:
            p = subprocess.run(cmd, cwd=wd, env=env, stdout=fo, stderr=subprocess.STDOUT, text=True)
        keep = []
        with open(to_file, errors="replace") as fi:
            for line in fi:
                if not line.startswith('<<"REPLAY"'):
                    keep.append(line)
                    if len(keep) > 20000:
                        keep = keep[:5000] + keep[-5000:]
        out = "".join(keep)
    else:
        p = subprocess.run(cmd, cwd=wd, env=env, stdout=subprocess.PIPE, stderr=subprocess.STDOUT, text=True)
        out = p.stdout
    wall = time.time() - t0
    shutil.rmtree(meta, ignore_errors=True)
    shutil.rmtree(os.path.join(wd, "states"), ignore_errors=True)
    if p.returncode == 124:
        raise ToolError(f"TLC timed out after {timeout}s on {module}")
    res = {"out": out, "wall": wall, "rc": p.returncode}
    m = re.search(r"(\d[\d,]*) states generated, (\d[\d,]*) distinct states found", out)
    res["generated"] = int(m.group(1).replace(",", "")) if m else 0
    res["distinct"] = int(m.group(2).replace(",", "")) if m else 0
    m = re.search(r"depth of the complete state graph search is (\d+)", out)
    res["depth"] = int(m.group(1)) if m else 0
    res["violated"] = ("is violated" in out) or ("Error: The behavior up to this point" in out)
    res["ok"] = ("No error has been found" in out) or (simulate is not None and "Error:" not in out)
    fatal = re.search(r"(Parsing or semantic analysis failed|TLC threw an unexpected exception|Error: .*[Ee]valuat|java\.lang\.\w*Error|Error: In evaluation|Error: Evaluating|Error: Attempted|Error: The |Error: TLC)", out)
    res["fatal"] = fatal.group(0) if (fatal and not res["violated"]) else None
    log(f"[tlc] {name}: {res['generated']} generated / {res['distinct']} distinct, depth {res['depth']}, {wall:.1f}s")
    return res


def tlc_tail(res, n=60):
    """Last lines of TLC's output without the exported behaviours (for error reports)."""
    return "\n".join([l for l in res["out"].splitlines() if not l.startswith('<<"REPLAY"')][-n:])


def tlc_must_pass(res, what):
    if res.get("fatal") or not res["ok"]:
        log(tlc_tail(res, 40))
        raise ToolError(f"TLC did not complete cleanly on {what} (specification-level problem, not a code violation)")


_RE_REPLAY = re.compile(r'^<<"(REPLAY|NOTE)", "(.*)">>$', re.M)


def extract_lines(out, tag="REPLAY"):
    """Behaviours printed by `PrintT(<<"REPLAY", ToJson(..)>>)`: returns a list of JSON strings."""
    res = []
    for m in _RE_REPLAY.finditer(out):
        if m.group(1) == tag:
            res.append(json.loads('"' + m.group(2) + '"'))
    return res


def postcondition_note(out):
    m = re.search(r'<<"REJECTED-AT".*', out)
    return m.group(0) if m else None


# ------------------------------------------------------------------ findings / reporting
def load_findings():
    p = os.path.join(ROOT, "known_findings.json")
    if not os.path.exists(p):
        return {"findings": [], "fixed": []}
    return json.load(open(p))


def sha(s):
    return hashlib.sha1(s.encode()).hexdigest()[:12]


class Report:
    """Collects violations (each with a signature used to match known findings), decides the
    exit code, writes replay files and the evidence file."""

    def __init__(self, pid, tier, seed, level):
        self.pid, self.tier, self.seed, self.level = pid, tier, seed, level
        # checks named X.. cover behaviour outside the 18 listed properties (DESIGN 13.8): same machinery, their
        # evidence is kept apart and they are not registered in MANIFEST.json
        self.extra = pid.startswith("X")
        self.t0 = time.time()
        self.violations = []   # dict(sig, what, case)
        self.drift = []
        self.coverage = {"samples": []}
        self.assumptions = []
        self.findings = [f for f in load_findings().get("findings", []) if f.get("property") == pid]
        os.makedirs(REPLAYS, exist_ok=True)
        os.makedirs(EVIDENCE, exist_ok=True)

    def violation(self, sig, what, case):
        self.violations.append({"sig": sig, "what": what, "case": case})

    def add(self, **kw):
        for k, v in kw.items():
            if isinstance(v, int) and isinstance(self.coverage.get(k), int):
                self.coverage[k] += v
            else:
                self.coverage[k] = v

    def sample(self, s, cap=6):
        if len(self.coverage["samples"]) < cap:
            self.coverage["samples"].append(s)

    def finish(self):
        for u in UNGUARDED:
            self.violation("unguarded-panic:" + sha(json.dumps(u.get("case"), sort_keys=True)),
                           f"[{u.get('cmd')}] the code under test panicked while this case was replayed: {u.get('panic', '')[:200]}", u)
        del UNGUARDED[:]
        known_hit = {}
        fresh = []
        for v in self.violations:
            hit = None
            for f in self.findings:
                if f.get("signature") == v["sig"]:
                    hit = f
                    break
            if hit:
                known_hit.setdefault(hit["signature"], (hit, 0))
                known_hit[hit["signature"]] = (hit, known_hit[hit["signature"]][1] + 1)
            else:
                fresh.append(v)
        for sig, (f, n) in known_hit.items():
            print(f"KNOWN-FINDING: property={self.pid} {f.get('what', sig)} [{n} case(s) this run]".replace("\n", "\\n"))
        for d in self.drift[:20]:
            print(f"DRIFT property={self.pid} {d}")
        seen = set()
        nfiles = 0
        for v in fresh:
            if v["sig"] in seen and nfiles >= 25:
                continue
            seen.add(v["sig"])
            nfiles += 1
            path = os.path.join(REPLAYS, f"{self.pid}-{sha(json.dumps(v['case'], sort_keys=True))}.json")
            with open(path, "w") as f:
                json.dump({"property": self.pid, "signature": v["sig"], "what": v["what"], "case": v["case"]}, f, indent=1)
            one_line = v['what'][:160].replace("\n", "\\n").replace("\r", "\\r")
            print(f"VIOLATION property={self.pid} replay={path}  # {one_line}")
        cov = self.coverage
        cov.setdefault("evaluations", 0)
        cov.setdefault("distinct_nontrivial", 0)
        cov.setdefault("rule", "")
        cov["drift"] = self.drift[:50]
        cov["known_findings_matched"] = {k: n for k, (f, n) in known_hit.items()}
        ev = {"property_id": self.pid, "tier": self.tier, "seed": self.seed, "level": self.level,
              "coverage": cov, "assumptions": self.assumptions, "wall_s": round(time.time() - self.t0, 2),
              "violations": len(fresh)}
        evdir = os.path.join(EVIDENCE, "extra") if self.extra else EVIDENCE
        os.makedirs(evdir, exist_ok=True)
        with open(os.path.join(evdir, f"{self.pid}.json"), "w") as f:
            json.dump(ev, f, indent=1)
        if fresh:
            return 1
        print(f"OK property={self.pid} tier={self.tier} evaluations={cov['evaluations']} "
              f"states={cov.get('states', 0)} wall={ev['wall_s']}s")
        return 0


def write_ndjson(path, items):
    with open(path, "w") as f:
        for it in items:
            f.write(it if isinstance(it, str) else json.dumps(it))
            f.write("\n")


def read_ndjson(path):
    res = []
    if not os.path.exists(path):
        return res
    with open(path) as f:
        for l in f:
            l = l.strip()
            if l:
                res.append(json.loads(l))
    return res


# ------------------------------------------------------------------ trace validation
def validate_trace(trace_spec, trace_path, wd, name=None, timeout=1800, extra_cfg=""):
    """Validate an NDJSON trace against spec/trace/<trace_spec>.tla.  Returns (accepted, info):
    info = dict(states, rejected_at (1-based line or None), event)."""
    cfg = "SPECIFICATION Spec\nPOSTCONDITION Accepted\nCHECK_DEADLOCK FALSE\n" + extra_cfg
    if os.path.getsize(trace_path) == 0:
        return True, {"states": 0, "rejected_at": None}
    res = run_tlc("trace/" + trace_spec, cfg, wd, workers=1, timeout=timeout, depth_first=True,
                  env_extra={"TRACE": trace_path}, name=name or trace_spec, heap="6g")
    out = res["out"]
    m = re.search(r'<<"REJECTED-AT", (\d+)', out)
    if m:
        return False, {"states": res["generated"], "rejected_at": int(m.group(1)), "out": out}
    if "Postcondition" in out and "is false" in out:
        return False, {"states": res["generated"], "rejected_at": res["generated"], "out": out}
    if res.get("fatal") or not res["ok"]:
        log("\n".join(out.splitlines()[-30:]))
        raise ToolError(f"TLC failed while validating {trace_path} against {trace_spec}")
    return True, {"states": res["generated"], "rejected_at": None}


def validate_runs(trace_spec, trace_path, wd, on_reject, max_rounds=12, run_key="run", name=None):
    """Validate a concatenation of runs; when a run is rejected report it through
    on_reject(run_id, line_no, event) and re-validate without that run so that the rest of the
    trace is still examined.  Returns (total_states, rejected_run_ids)."""
    total = 0
    rejected = []
    path = trace_path
    for rnd in range(max_rounds):
        ok, info = validate_trace(trace_spec, path, wd, name=name)
        total = max(total, info["states"])
        if ok:
            return total, rejected
        with open(path) as f:
            lines = f.readlines()
        ln = min(info["rejected_at"], len(lines))
        ev = json.loads(lines[ln - 1])
        rid = ev.get(run_key)
        rejected.append(rid)
        on_reject(rid, ln, ev, lines)
        keep = [l for l in lines if json.loads(l).get(run_key) != rid]
        path = trace_path + f".r{rnd}"
        with open(path, "w") as f:
            f.writelines(keep)
    # enough evidence: the runs rejected so far have been reported through on_reject; the rest stays unexamined
    log(f"note: more than {max_rounds} rejected runs in {trace_path}; the remaining runs were not examined")
    return total, rejected
