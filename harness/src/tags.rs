//! C13: tags never change what a value does.  Cases from spec/mc/MC_C13.tla are run as twins
//! (untagged / tagged arguments); the recorded pair of observations is validated by TLC.
use crate::*;
use serde_json::{json, Value};

fn has_tags(c: &Cell) -> bool {
    match c {
        Cell::WithTag(_) => true,
        _ => false,
    }
}

fn observe(src: &str, keeps: bool) -> (Value, bool) {
    let mut xs = fresh();
    let r = guarded(|| xs.eval(src));
    let out = xs.read_stdout().unwrap_or_default();
    match r {
        Outcome::Panic(_) => (json!({"res": "panic"}), false),
        Outcome::Done(r) if keeps => {
            // a carried value: what arrives, tags included (variables the carrier phrase defines are not compared)
            let st = visible_stack(&xs);
            (json!({"res": match &r { Ok(()) => "ok".to_string(), Err(e) => err_class(e).to_string() },
                    "ds": st.iter().map(cell_json).collect::<Vec<_>>(), "out": out}), false)
        }
        Outcome::Done(r) => {
            let st = visible_stack(&xs);
            let top_tagged = st.last().map(has_tags).unwrap_or(false);
            let base = fresh().verif_dump().heap.len();
            let vars: Vec<Value> = xs.verif_dump().heap.iter().skip(base).map(cell_json_untagged).collect();
            let o = json!({
                "res": match &r { Ok(()) => "ok".to_string(), Err(e) => err_class(e).to_string() },
                "ds": st.iter().map(cell_json_untagged).collect::<Vec<_>>(),
                "out": out,
                "vars": vars,
                "output": xs.get_var_value("output").ok().map(cell_json_untagged),
            });
            (o, r.is_ok() && top_tagged)
        }
    }
}

/// xv tags-record <tlc-output> <trace> <side>
pub fn cmd_record(args: &[String]) -> i32 {
    let mut trace = String::new();
    let mut side = String::new();
    let mut n = 0usize;
    let mut ok_pairs = 0usize;
    for_each_replay_line(&args[0], |c| {
        let w = c["w"].as_str().unwrap_or("");
        let join = |k: &str| c[k].as_array().map(|a| a.iter().map(|x| x.as_str().unwrap_or("")).collect::<Vec<_>>().join(" ")).unwrap_or_default();
        let plain = format!("{} {}", join("plain"), w);
        let tagged = format!("{} {}", join("tagged"), w);
        let keeps = c["cls"] == "keeps";
        let (o1, t1) = observe(&plain, keeps);
        let (o2, t2) = observe(&tagged, keeps);
        if o1["res"] == "ok" {
            ok_pairs += 1;
        }
        let cls = c["cls"].as_str().unwrap_or("");
        trace.push_str(&json!({"run": n, "variant": "plain", "cls": cls, "o": fnv(&o1.to_string()), "restags": if t1 {1} else {0}}).to_string());
        trace.push('\n');
        trace.push_str(&json!({"run": n, "variant": "tagged", "cls": cls, "o": fnv(&o2.to_string()), "restags": if t2 {1} else {0}}).to_string());
        trace.push('\n');
        side.push_str(&json!({"run": n, "plain": plain, "tagged": tagged, "cls": cls, "obs_plain": o1, "obs_tagged": o2, "restags": [t1, t2]}).to_string());
        side.push('\n');
        n += 1;
    });
    std::fs::write(&args[1], trace).unwrap();
    std::fs::write(&args[2], side).unwrap();
    println!("{}", json!({"pairs": n, "ok_pairs": ok_pairs}));
    0
}
