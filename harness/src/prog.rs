//! Program-level replay: behaviours exported by TLC (one JSON object per program with the
//! specification's predicted observables) are executed on the real interpreter.
use crate::*;
use serde_json::{json, Value};

#[derive(Clone, Copy, PartialEq, Debug)]
pub enum Drive {
    Eval,
    CompileRun,
    CompileStep,
}

pub struct RunObs {
    pub res: Result<(), Xerr>,
    pub panic: Option<String>,
    pub xs: Xstate,
    pub out: String,
    pub steps: usize,
}

/// Run one source on a fresh interpreter in the given drive mode.
pub fn run_source(src: &str, drive: Drive, rec: bool, insn_limit: usize) -> RunObs {
    let mut xs = fresh();
    xs.set_recording_enabled(rec);
    xs.set_insn_limit(Some(insn_limit)).unwrap();
    run_on(xs, src, drive)
}

pub fn run_on(mut xs: Xstate, src: &str, drive: Drive) -> RunObs {
    let mut steps = 0usize;
    let outcome = guarded(|| match drive {
        Drive::Eval => xs.eval(src),
        Drive::CompileRun => xs.compile(src).and_then(|_| xs.run()),
        Drive::CompileStep => {
            xs.compile(src)?;
            while xs.is_running() {
                xs.next()?;
                steps += 1;
            }
            Ok(())
        }
    });
    let (res, panic) = match outcome {
        Outcome::Done(r) => (r, None),
        Outcome::Panic(m) => (Err(Xerr::InternalError), Some(m)),
    };
    let out = xs.read_stdout().unwrap_or_default();
    RunObs { res, panic, xs, out, steps }
}

fn join_out(v: &Value) -> String {
    match v {
        Value::Array(a) => a.iter().map(|x| x.as_str().unwrap_or("")).collect::<Vec<_>>().join(""),
        Value::String(s) => s.clone(),
        _ => String::new(),
    }
}

/// Compare one predicted behaviour with the real one. Returns None when they agree.
pub fn judge(case: &Value, drive: Drive, rec: bool) -> Option<Value> {
    let kind = case["kind"].as_str().unwrap_or("");
    if kind == "skip" {
        return None;
    }
    let src: String = case["src"]
        .as_array()
        .map(|a| a.iter().map(|x| x.as_str().unwrap_or("")).collect::<Vec<_>>().join(" "))
        .unwrap_or_default();
    let limit = case["limit"].as_u64().unwrap_or(200_000) as usize;
    let r = run_source(&src, drive, rec, limit);
    let mut why: Vec<String> = vec![];
    if let Some(p) = &r.panic {
        why.push(format!("panic: {}", p));
    }
    let obs_ds = stack_json(&r.xs);
    match kind {
        "done" => {
            if let Err(e) = &r.res {
                why.push(format!("expected success, got {} ({})", err_class(e), e));
            } else {
                if obs_ds != case["ds"] {
                    why.push("data stack differs".into());
                }
                if r.out != join_out(&case["out"]) {
                    why.push("output differs".into());
                }
                if let Some(vars) = case["vars"].as_object() {
                    for (name, exp) in vars {
                        let got = match r.xs.get_var_value(name) {
                            Ok(c) => cell_json(c),
                            Err(_) => json!({"ty":"unknown"}),
                        };
                        if &got != exp {
                            why.push(format!("variable {} differs", name));
                        }
                    }
                }
            }
        }
        "fail" => match &r.res {
            Ok(()) => why.push("expected failure, got success".into()),
            Err(e) => {
                if err_class(e) != case["cls"].as_str().unwrap_or("") {
                    why.push(format!("error class {} differs", err_class(e)));
                }
                if r.out != join_out(&case["out"]) {
                    why.push("output before the failure differs".into());
                }
                // the part of the stack the failing word cannot touch (DESIGN 5/C01)
                let below = case["below"].as_array().cloned().unwrap_or_default();
                let slack = case["slack"].as_u64().unwrap_or(0) as usize;
                let got = obs_ds.as_array().cloned().unwrap_or_default();
                if got.len() < below.len() || got.len() > below.len() + slack || got[..below.len()] != below[..] {
                    why.push("stack at the failure point differs".into());
                }
            }
        },
        "timeout" => match &r.res {
            Ok(()) => why.push("a structurally non-terminating program fell through".into()),
            Err(e) => {
                if err_class(e) != "Limit" {
                    why.push(format!("expected to still be running at the limit, got {}", err_class(e)));
                }
            }
        },
        _ => {}
    }
    if why.is_empty() {
        None
    } else {
        Some(json!({
            "src": src, "drive": format!("{:?}", drive), "rec": rec, "expected": case, "why": why,
            "observed": {"res": res_json(&r.res), "ds": obs_ds, "out": r.out, "panic": r.panic}
        }))
    }
}

/// xv replay-prog <cases.ndjson> <mismatches.ndjson> [eval|compile_run|compile_step] [rec]
pub fn cmd_replay(args: &[String]) -> i32 {
    let cases = read_lines(&args[0]);
    let drive = match args.get(2).map(|s| s.as_str()) {
        Some("compile_run") => Drive::CompileRun,
        Some("compile_step") => Drive::CompileStep,
        _ => Drive::Eval,
    };
    let rec = args.get(3).map(|s| s == "rec").unwrap_or(false);
    let mut out = String::new();
    let mut bad = 0usize;
    let mut judged = 0usize;
    for c in &cases {
        if c["kind"] != "skip" {
            judged += 1;
        }
        if let Some(m) = judge(c, drive, rec) {
            bad += 1;
            out.push_str(&m.to_string());
            out.push('\n');
        }
    }
    std::fs::write(&args[1], out).unwrap();
    println!("{}", json!({"cases": cases.len(), "judged": judged, "mismatches": bad}));
    0
}
