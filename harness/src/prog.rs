//! Program-level replay: behaviours exported by TLC (one JSON object per program with the
//! specification's predicted observables) are executed on the real interpreter.
use crate::*;
use serde_json::{json, Value};

#[derive(Clone, Copy, PartialEq, Debug)]
pub enum Drive {
    Eval,
    CompileRun,
    CompileStep,
}

pub struct RunObs {
    pub res: Result<(), Xerr>,
    pub panic: Option<String>,
    pub xs: Xstate,
    pub out: String,
    pub steps: usize,
}

/// Run one source on a fresh interpreter in the given drive mode.
pub fn run_source(src: &str, drive: Drive, rec: bool, insn_limit: usize) -> RunObs {
    let mut xs = fresh();
    xs.set_recording_enabled(rec);
    xs.set_insn_limit(Some(insn_limit)).unwrap();
    run_on(xs, src, drive)
}

/// The same, starting from an interpreter that is idle after an earlier source (evaluated or compiled and run):
/// `prior` = (source, driven by eval?).  A prelude that fails is fine: the interpreter is idle again afterwards.
pub fn run_source_after(prior: &(String, bool), src: &str, drive: Drive, rec: bool, insn_limit: usize) -> RunObs {
    let mut xs = fresh();
    xs.set_recording_enabled(rec);
    xs.set_insn_limit(Some(insn_limit)).unwrap();
    // a prior text starting with "STEP " is compiled and single-stepped (to its end or to its failure)
    let mut capped = false;
    let _ = guarded(|| if let Some(p) = prior.0.strip_prefix("STEP ") {
        xs.compile(p)?;
        let mut k = 0;
        while xs.is_running() && k < 20_000 { xs.next()?; k += 1; }
        capped = xs.is_running();       // stopped by the step cap, not by an error or the end of the code
        Ok(())
    } else if prior.1 { xs.eval(&prior.0) } else { xs.compile(&prior.0).and_then(|_| xs.run()) });
    let _ = xs.read_stdout();
    if capped {
        // the earlier source has not come to an end (a stepped loop that hit the step cap): the interpreter is not idle,
        // which is outside the property - the program is driven from a fresh interpreter instead
        return run_source(src, drive, rec, insn_limit);
    }
    xs.set_insn_limit(Some(insn_limit)).unwrap(); // resets the meter
    run_on(xs, src, drive)
}

pub fn run_on(mut xs: Xstate, src: &str, drive: Drive) -> RunObs {
    let mut steps = 0usize;
    let outcome = guarded(|| match drive {
        Drive::Eval => xs.eval(src),
        Drive::CompileRun => xs.compile(src).and_then(|_| xs.run()),
        Drive::CompileStep => {
            xs.compile(src)?;
            // every step is metered: more steps than the instruction limit allows is itself an outcome (and no reason to hang)
            let cap = xs.verif_dump().insn_limit.map(|l| l + 16);
            while xs.is_running() {
                xs.next()?;
                steps += 1;
                if cap.map(|c| steps > c).unwrap_or(false) {
                    return Err(Xerr::ErrorMsg(Xstr::from("harness: single-stepping ran past the instruction limit")));
                }
            }
            Ok(())
        }
    });
    let (res, panic) = match outcome {
        Outcome::Done(r) => (r, None),
        Outcome::Panic(m) => (Err(Xerr::InternalError), Some(m)),
    };
    let out = xs.read_stdout().unwrap_or_default();
    RunObs { res, panic, xs, out, steps }
}

fn join_out(v: &Value) -> String {
    match v {
        Value::Array(a) => a.iter().map(|x| x.as_str().unwrap_or("")).collect::<Vec<_>>().join(""),
        Value::String(s) => s.clone(),
        _ => String::new(),
    }
}

/// Compare one predicted behaviour with the real one. Returns None when they agree.
pub fn judge(case: &Value, drive: Drive, rec: bool) -> Option<Value> {
    let kind = case["kind"].as_str().unwrap_or("");
    if kind == "skip" {
        return None;
    }
    let src: String = case["src"]
        .as_array()
        .map(|a| a.iter().map(|x| x.as_str().unwrap_or("")).collect::<Vec<_>>().join(" "))
        .unwrap_or_default();
    let limit = case["limit"].as_u64().unwrap_or(200_000) as usize;
    let r = run_source(&src, drive, rec, limit);
    let mut why: Vec<String> = vec![];
    if let Some(p) = &r.panic {
        why.push(format!("panic: {}", p));
    }
    let obs_ds = stack_json(&r.xs);
    match kind {
        "done" => {
            if let Err(e) = &r.res {
                why.push(format!("expected success, got {} ({})", err_class(e), e));
            } else {
                if obs_ds != case["ds"] {
                    why.push("data stack differs".into());
                }
                if r.out != join_out(&case["out"]) {
                    why.push("output differs".into());
                }
                if let Some(vars) = case["vars"].as_object() {
                    for (name, exp) in vars {
                        let got = match r.xs.get_var_value(name) {
                            Ok(c) => cell_json(c),
                            Err(_) => json!({"ty":"unknown"}),
                        };
                        if &got != exp {
                            why.push(format!("variable {} differs", name));
                        }
                    }
                }
            }
        }
        "fail" => match &r.res {
            Ok(()) => why.push("expected failure, got success".into()),
            Err(e) => {
                if err_class(e) != case["cls"].as_str().unwrap_or("") {
                    why.push(format!("error class {} differs", err_class(e)));
                }
                if r.out != join_out(&case["out"]) {
                    why.push("output before the failure differs".into());
                }
                // the part of the stack the failing word cannot touch (DESIGN 5/C01)
                let below = case["below"].as_array().cloned().unwrap_or_default();
                let slack = case["slack"].as_u64().unwrap_or(0) as usize;
                let got = obs_ds.as_array().cloned().unwrap_or_default();
                if got.len() < below.len() || got.len() > below.len() + slack || got[..below.len()] != below[..] {
                    why.push("stack at the failure point differs".into());
                }
            }
        },
        "timeout" => match &r.res {
            Ok(()) => why.push("a structurally non-terminating program fell through".into()),
            Err(e) => {
                if err_class(e) != "Limit" {
                    why.push(format!("expected to still be running at the limit, got {}", err_class(e)));
                }
            }
        },
        _ => {}
    }
    if why.is_empty() {
        None
    } else {
        Some(json!({
            "src": src, "drive": format!("{:?}", drive), "rec": rec, "expected": case, "why": why,
            "observed": {"res": res_json(&r.res), "ds": obs_ds, "out": r.out, "panic": r.panic}
        }))
    }
}

/// xv replay-prog <cases.ndjson> <mismatches.ndjson> [eval|compile_run|compile_step] [rec]
pub fn cmd_replay(args: &[String]) -> i32 {
    let cases = read_lines(&args[0]);
    let drive = match args.get(2).map(|s| s.as_str()) {
        Some("compile_run") => Drive::CompileRun,
        Some("compile_step") => Drive::CompileStep,
        _ => Drive::Eval,
    };
    let rec = args.get(3).map(|s| s == "rec").unwrap_or(false);
    let mut out = String::new();
    let mut bad = 0usize;
    let mut judged = 0usize;
    for c in &cases {
        if c["kind"] != "skip" {
            judged += 1;
        }
        if let Some(m) = judge(c, drive, rec) {
            bad += 1;
            out.push_str(&m.to_string());
            out.push('\n');
        }
    }
    std::fs::write(&args[1], out).unwrap();
    println!("{}", json!({"cases": cases.len(), "judged": judged, "mismatches": bad}));
    0
}

// ------------------------------------------------------------------ seeded programs of the C01 grammar
struct G1 {
    rng: Rng,
    out: Vec<String>,
    defs: Vec<String>,
    vars: Vec<String>,
    d: i32, // a rough lower bound of the stack depth, so that most programs do not die on their first word
}

impl G1 {
    fn lit(&mut self) { let v = ["0", "1", "2", "3", "-1", "2", "1", "true", "false", "nil"]; let s = v[self.rng.below(v.len())]; self.out.push(s.into()); self.d += 1; }
    fn word(&mut self) {
        // (name, needs, net effect); numeric words after numeric literals most of the time
        let v: [(&str, i32, i32); 15] = [("dup", 1, 1), ("drop", 1, -1), ("swap", 2, 0), ("over", 2, 1), ("rot", 3, 0), ("+", 2, -1), ("-", 2, -1), ("*", 2, -1),
                 ("==", 2, -1), ("<", 2, -1), (">=", 2, -1), ("depth", 0, 1), ("not", 1, 0), ("print", 1, -1), ("nil?", 1, 0)];
        let (w, need, net) = v[self.rng.below(v.len())];
        if self.d < need && self.rng.chance(9, 10) { self.lit(); return; }
        if matches!(w, "+" | "-" | "*" | "==" | "<" | ">=") && self.rng.chance(3, 4) {
            // make the operands numeric
            self.out.push((self.rng.below(4)).to_string()); self.out.push((self.rng.below(4)).to_string()); self.d += 2;
        }
        self.out.push(w.into());
        self.d = (self.d + net).max(0);
    }
    fn flag(&mut self) {
        match self.rng.below(3) {
            0 => self.out.push("true".into()),
            1 => self.out.push("false".into()),
            _ => { self.out.push("depth".into()); self.out.push("2".into()); self.out.push("<".into()); }
        }
    }
    fn seq(&mut self, budget: usize, depth: usize, in_def: bool, locals: &mut Vec<String>, loop_kind: u8) {
        let start = self.out.len();
        while self.out.len() - start < budget {
            let left = budget - (self.out.len() - start);
            let r = self.rng.below(100);
            if r < 25 { self.lit(); }
            else if r < 45 { self.word(); }
            else if r < 53 && depth < 5 && left > 3 {
                self.flag(); self.out.push("if".into()); self.d = 0;
                self.seq(left / 3, depth + 1, in_def, locals, loop_kind);
                if loop_kind != 0 && self.rng.chance(1, 4) { self.out.push("break".into()); }
                if self.rng.chance(1, 2) { self.out.push("else".into()); self.seq(left / 3, depth + 1, in_def, locals, loop_kind); }
                self.out.push("then".into());
            } else if r < 59 && depth < 4 && left > 4 {
                let n = self.rng.below(4); let s = self.rng.below(3);
                self.out.push(n.to_string()); self.out.push(s.to_string()); self.out.push("do".into());
                if self.rng.chance(1, 2) { self.out.push(["I", "J", "K"][self.rng.below(3)].into()); }
                self.seq(left / 3, depth + 1, in_def, locals, 1);
                self.out.push("loop".into()); self.d = 0;
            } else if r < 63 && depth < 4 && left > 6 {
                self.out.push("0".into()); self.out.push("begin".into()); self.out.push("1".into()); self.out.push("+".into());
                self.out.push("dup".into()); self.out.push((1 + self.rng.below(3)).to_string()); self.out.push(">=".into()); self.out.push("until".into());
            } else if r < 67 && depth < 4 && left > 8 {
                self.out.push("0".into()); self.out.push("begin".into()); self.out.push("dup".into()); self.out.push((1 + self.rng.below(3)).to_string());
                self.out.push("<".into()); self.out.push("while".into()); self.out.push("1".into()); self.out.push("+".into());
                if self.rng.chance(1, 3) { self.out.push("dup".into()); self.out.push("2".into()); self.out.push("==".into()); self.out.push("if".into()); self.out.push("break".into()); self.out.push("then".into()); }
                self.out.push("repeat".into());
            } else if r < 71 && depth < 4 && left > 8 {
                self.lit(); self.out.push("case".into());
                for _ in 0..(1 + self.rng.below(2)) { self.lit(); self.out.push("of".into()); self.seq(2, depth + 1, in_def, locals, loop_kind); self.out.push("endof".into()); }
                self.out.push("endcase".into());
            } else if r < 80 && depth < 3 && left > 5 {
                // definition (nested definitions allowed); the name becomes callable once the definition is closed
                let name = ["f", "g", "h"][self.rng.below(3)].to_string();
                self.out.push(":".into()); self.out.push(name.clone());
                let mut inner: Vec<String> = vec![];
                self.seq(left / 2, depth + 1, true, &mut inner, 0);
                self.out.push(";".into()); self.d = 0;
                self.defs.push(name);
            } else if r < 86 && !self.defs.is_empty() {
                let n = self.defs[self.rng.below(self.defs.len())].clone(); self.out.push(n); self.d = 0;
            } else if r < 92 && in_def {
                // locals: few names, so that the same name is declared repeatedly
                let name = ["x", "y"][self.rng.below(2)].to_string();
                if self.d < 1 || self.rng.chance(2, 3) { self.lit(); }
                self.out.push("local".into()); self.out.push(name.clone()); locals.push(name); self.d = (self.d - 1).max(0);
            } else if r < 96 && in_def && !locals.is_empty() {
                let n = locals[self.rng.below(locals.len())].clone(); self.out.push(n); self.d += 1;
            } else if r < 98 && !in_def && depth == 0 {
                let name = ["u", "v"][self.rng.below(2)].to_string();
                self.lit(); self.out.push("var".into()); self.out.push(name.clone()); self.vars.push(name);
            } else if !self.vars.is_empty() {
                let n = self.vars[self.rng.below(self.vars.len())].clone();
                if self.rng.chance(1, 2) { self.lit(); self.out.push("!".into()); }
                self.out.push(n);
            } else { self.lit(); }
        }
    }
}

impl G1 {
    /// definitions whose interest is the local-variable table: repeated names, nested definitions with their own
    /// locals under an outer definition that already has some, reads after redeclaration
    fn local_stress(&mut self) {
        let names = ["x", "y"];
        self.out.push(":".into()); self.out.push("f".into());
        let mut mine: Vec<String> = vec![];
        for _ in 0..(1 + self.rng.below(3)) {
            self.out.push((1 + self.rng.below(8)).to_string()); self.out.push("local".into());
            let n = names[self.rng.below(2)].to_string(); self.out.push(n.clone()); mine.push(n);
        }
        let mut has_g = false;
        if self.rng.chance(1, 2) {
            has_g = true;
            self.out.push(":".into()); self.out.push("g".into());
            let mut inner: Vec<String> = vec![];
            for _ in 0..(1 + self.rng.below(2)) {
                self.out.push((10 + self.rng.below(8)).to_string()); self.out.push("local".into());
                let n = names[self.rng.below(2)].to_string(); self.out.push(n.clone()); inner.push(n);
            }
            for _ in 0..(1 + self.rng.below(3)) { let n = inner[self.rng.below(inner.len())].clone(); self.out.push(n); }
            self.out.push(";".into());
        }
        for _ in 0..(1 + self.rng.below(3)) { let n = mine[self.rng.below(mine.len())].clone(); self.out.push(n); }
        if self.rng.chance(1, 2) {
            self.out.push((20 + self.rng.below(8)).to_string()); self.out.push("local".into());
            let n = names[self.rng.below(2)].to_string(); self.out.push(n.clone()); mine.push(n.clone());
            self.out.push(n);
            let m = mine[self.rng.below(mine.len())].clone(); self.out.push(m);
        }
        if has_g && self.rng.chance(2, 3) { self.out.push("g".into()); }
        self.out.push(";".into());
        self.out.push("f".into());
        if has_g && self.rng.chance(1, 2) { self.out.push("g".into()); }
    }
}

impl G1 {
    /// programs whose interest is the table of global names: variables declared again under the same name, words
    /// compiled against the earlier declaration and run after the later one, stores through either
    fn global_stress(&mut self) {
        let names = ["u", "v"];
        let mut declared: Vec<String> = vec![];
        let mut words: Vec<String> = vec![];
        let n = 4 + self.rng.below(6);
        for k in 0..n {
            match if declared.is_empty() { 0 } else { self.rng.below(7) } {
                0 | 1 => {
                    let nm = names[self.rng.below(2)].to_string();
                    self.out.push((1 + self.rng.below(9)).to_string()); self.out.push("var".into()); self.out.push(nm.clone());
                    if !self.vars.contains(&nm) { self.vars.push(nm.clone()); }
                    declared.push(nm);
                }
                2 => {
                    let nm = declared[self.rng.below(declared.len())].clone();
                    let w = format!("g{}", k);
                    self.out.push(":".into()); self.out.push(w.clone());
                    if self.rng.chance(1, 3) { self.out.push((20 + self.rng.below(9)).to_string()); self.out.push("!".into()); self.out.push(nm.clone()); }
                    self.out.push(nm); self.out.push(";".into());
                    words.push(w);
                }
                3 if !words.is_empty() => { let w = words[self.rng.below(words.len())].clone(); self.out.push(w); }
                4 => { let nm = declared[self.rng.below(declared.len())].clone(); self.out.push((30 + self.rng.below(9)).to_string()); self.out.push("!".into()); self.out.push(nm); }
                _ => { let nm = declared[self.rng.below(declared.len())].clone(); self.out.push(nm); }
            }
        }
    }

    /// a local (re)initialised on every trip of a loop inside a called definition, read inside and after the loop,
    /// with further locals declared after the loop
    fn loop_local_stress(&mut self) {
        self.out.push(":".into()); self.out.push("f".into());
        if self.rng.chance(1, 2) { self.out.push("7".into()); self.out.push("local".into()); self.out.push("y".into()); }
        let trips = 1 + self.rng.below(3);
        self.out.push(trips.to_string()); self.out.push("0".into()); self.out.push("do".into());
        self.out.push("I".into()); if self.rng.chance(1, 2) { self.out.push("10".into()); self.out.push("+".into()); }
        self.out.push("local".into()); self.out.push("x".into());
        if self.rng.chance(1, 2) { self.out.push("x".into()); }
        self.out.push("loop".into());
        if self.rng.chance(1, 2) { self.out.push("9".into()); self.out.push("local".into()); self.out.push("z".into()); self.out.push("z".into()); }
        self.out.push("x".into());
        self.out.push(";".into());
        self.out.push("f".into());
        if self.rng.chance(1, 3) { self.out.push("f".into()); }
    }
}

fn tok_json(t: &str) -> Value {
    let lit = |c: Value| json!({"t": "lit", "v": c, "s": "", "id": 0});
    if let Ok(i) = t.parse::<i64>() { return lit(json!({"ty": "int", "i": i})); }
    json!({"t": "w", "v": {"ty": "nil"}, "s": t, "id": 0})
}

/// xv prog-record <trace> <seed> <n> <budget>
pub fn cmd_record(args: &[String]) -> i32 {
    let seed: u64 = args[1].parse().unwrap_or(1);
    let n: usize = args[2].parse().unwrap_or(500);
    let budget: usize = args[3].parse().unwrap_or(30);
    let mut trace = String::new();
    let mut g = G1 { rng: Rng::new(seed), out: vec![], defs: vec![], vars: vec![], d: 0 };
    let mut done = 0usize;
    for i in 0..n {
        g.out.clear(); g.defs.clear(); g.vars.clear(); g.d = 0;
        let b = 6 + g.rng.below(budget);
        let mut locals = vec![];
        if i % 4 == 3 { g.local_stress(); } else if i % 8 == 2 { g.global_stress(); } else if i % 8 == 6 { g.loop_local_stress(); } else { g.seq(b, 0, false, &mut locals, 0); }
        let toks = g.out.clone();
        let src = toks.join(" ");
        let r = run_source(&src, Drive::Eval, false, 100_000);
        if r.panic.is_some() { continue; }
        let ds = stack_json(&r.xs);
        let outv: Vec<String> = split_out(&r.out);
        let mut vars = serde_json::Map::new();
        for v in g.vars.iter() {
            if let Ok(c) = r.xs.get_var_value(v) { vars.insert(v.clone(), cell_json(c)); }
        }
        let (res, cls) = match &r.res { Ok(()) => ("ok", "none"), Err(e) => if err_class(e) == "Limit" { ("limit", "Limit") } else { ("err", err_class(e)) } };
        trace.push_str(&json!({"run": i, "src": src, "toks": toks.iter().map(|t| tok_json(t)).collect::<Vec<_>>(), "res": res, "cls": cls,
                               "ds": ds, "out": outv, "vars": vars}).to_string());
        trace.push('\n');
        done += 1;
    }
    std::fs::write(&args[0], trace).unwrap();
    println!("{}", json!({"programs": done}));
    0
}

/// stdout as the sequence of pieces `print` produces for the cells of this grammar (ints, flags, nil, vectors never printed here)
fn split_out(s: &str) -> Vec<String> {
    // the grammar prints only ints, flags and nil, none of which contains a prefix of another except digits:
    // record the whole text as ONE piece when non-empty; Trace_Source compares the concatenation (see Flat)
    if s.is_empty() { vec![] } else { vec![s.to_string()] }
}

// ------------------------------------------------------------------ drift: the design's code skeleton vs the real compiler's
fn skeleton(listing: &[String], base: usize) -> Vec<String> {
    listing.iter().map(|l| {
        let mut it = l.splitn(2, ' ');
        let k = it.next().unwrap_or("");
        let a = it.next().unwrap_or("");
        match k {
            "jump" | "jumpifnot" | "jumpif" | "caseof" | "do" | "loop" | "break" | "call" => {
                let n: i64 = a.parse().unwrap_or(-1);
                format!("{} {}", k, n - base as i64)
            }
            "ret" => "ret".to_string(),
            _ => "other".to_string(),
        }
    }).collect()
}

/// xv code-drift <cases> <drifts>: compile each generated program and compare the control-flow skeleton of the code
/// (jumps, loops, calls, returns with their absolute targets; everything else is "other") with the one Xeh.tla compiled.
pub fn cmd_code_drift(args: &[String]) -> i32 {
    let cases = read_lines(&args[0]);
    let mut out = String::new();
    let mut compared = 0usize;
    let mut drifts = 0usize;
    for c in &cases {
        let want: Vec<String> = match c["code"].as_array() { Some(a) => a.iter().map(|x| x.as_str().unwrap_or("").to_string()).collect(), None => continue };
        if want.len() == 1 && want[0] == "uncompiled" { continue; }
        let src: String = c["src"].as_array().map(|a| a.iter().map(|x| x.as_str().unwrap_or("")).collect::<Vec<_>>().join(" ")).unwrap_or_default();
        let mut xs = fresh();
        let base = xs.verif_dump().code_len;
        if !matches!(guarded(|| xs.compile(&src)), Outcome::Done(Ok(()))) { continue; }
        let got = skeleton(&xs.verif_code()[base..], base);
        compared += 1;
        if got != want {
            drifts += 1;
            if drifts <= 50 {
                out.push_str(&json!({"src": src, "design": want, "compiler": got}).to_string());
                out.push('\n');
            }
        }
    }
    std::fs::write(&args[1], out).unwrap();
    println!("{}", json!({"compared": compared, "drifts": drifts}));
    0
}
