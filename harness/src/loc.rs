//! C17: every error points at the token that caused it.
use crate::*;
use serde_json::{json, Value};
use xeh::lex::token_location;

/// Reference of the location arithmetic (the same definition as spec/mc/MC_C17L.tla, on concrete text):
/// line = number of '\n' before the byte offset, col = characters since the last '\n' / '\r',
/// whole line = maximal run without line breaks containing the offset.
pub fn locate(text: &str, start: usize) -> (usize, usize, String) {
    let before = &text[..start];
    let line = before.matches('\n').count();
    let last_break = before.rfind(|c| c == '\n' || c == '\r').map(|i| i + 1).unwrap_or(0);
    let col = text[last_break..start].chars().count();
    let next_break = text[start..].find(|c| c == '\n' || c == '\r').map(|i| start + i).unwrap_or(text.len());
    (line, col, text[last_break..next_break].to_string())
}

const SEPS: [&str; 8] = [" ", "\n", "\r\n", "\t", "  ", "\n\n ", " \t\n", "\r"];

pub fn judge(case: &Value, variant: usize) -> Option<Value> {
    let toks: Vec<String> = case["src"].as_array().map(|a| a.iter().map(|x| x.as_str().unwrap_or("").to_string()).collect()).unwrap_or_default();
    let fails: Vec<usize> = case["failtoks"].as_array().map(|a| a.iter().map(|x| x.as_u64().unwrap_or(0) as usize).collect()).unwrap_or_default();
    // lay the tokens out with varied separators; optionally multi-byte text in front
    let mut text = String::new();
    if variant % 3 == 1 { text.push_str("\"é→😀\" drop "); }
    if variant % 3 == 2 { text.push_str("\\ commentaire é\r\n"); }
    let mut ranges: Vec<(usize, usize)> = vec![];
    for (i, t) in toks.iter().enumerate() {
        if i > 0 { text.push_str(SEPS[(variant * 5 + i * 3) % SEPS.len()]); }
        let s = text.len();
        text.push_str(t);
        ranges.push((s, text.len()));
    }
    if variant % 2 == 1 { text.push_str("\n1 2"); }
    let mut xs = fresh();
    let prior = variant % 3;
    // earlier sources on the same interpreter: another text, and (prior = 2) the very same text, which fails the same way
    if prior >= 1 { let _ = xs.eval("1 drop"); }
    if prior >= 2 { let _ = guarded(|| xs.eval(&text)); }
    let nsrc = xs.verif_dump().sources_len;
    let r = guarded(|| xs.eval(&text));
    let mut why: Vec<String> = vec![];
    match r {
        Outcome::Panic(m) => why.push(format!("panic: {}", m)),
        Outcome::Done(Ok(())) => why.push("the program did not fail".into()),
        Outcome::Done(Err(e)) => {
            if err_class(&e) != case["cls"].as_str().unwrap_or("") {
                why.push(format!("error class {} (expected {})", err_class(&e), case["cls"]));
            }
            match xs.last_err_location() {
                None => why.push("no error location".into()),
                Some(loc) => {
                    let tr = loc.token.range();
                    let hit = fails.iter().any(|f| ranges.get(f - 1).map(|r| r.0 == tr.start && r.1 == tr.end).unwrap_or(false));
                    if !hit {
                        let want: Vec<&str> = fails.iter().filter_map(|f| toks.get(f - 1).map(|s| s.as_str())).collect();
                        why.push(format!("blames the text {:?} at bytes {}..{}, the failing token is {:?} at {:?}", loc.token.as_str(), tr.start, tr.end, want,
                                         fails.iter().filter_map(|f| ranges.get(f - 1)).collect::<Vec<_>>()));
                    } else {
                        let (line, col, whole) = locate(&text, tr.start);
                        if loc.line != line || loc.col != col {
                            why.push(format!("reports line {} column {}, the token is at line {} column {}", loc.line, loc.col, line, col));
                        }
                        if loc.whole_line.as_str() != whole {
                            why.push(format!("quotes the line {:?}, the token's line is {:?}", loc.whole_line.as_str(), whole));
                        }
                        let fname = format!("<buffer#{}>", nsrc);
                        if loc.filename.as_str() != fname {
                            why.push(format!("names the source {:?}, expected {:?}", loc.filename.as_str(), fname));
                        }
                    }
                }
            }
            match guarded(|| xs.pretty_error()) {
                Outcome::Panic(m) => why.push(format!("pretty_error panicked: {}", m)),
                Outcome::Done(None) => why.push("pretty_error returned nothing".into()),
                Outcome::Done(Some(_)) => {}
            }
        }
    }
    if why.is_empty() { None } else { Some(json!({"text": text, "why": why, "variant": variant})) }
}

/// xv loc-replay <tlc-output> <mismatches> <variants>
pub fn cmd_replay(args: &[String]) -> i32 {
    let variants: usize = args.get(2).and_then(|s| s.parse().ok()).unwrap_or(3);
    let mut n = 0usize;
    let mut bad = 0usize;
    let mut out = String::new();
    for_each_replay_line(&args[0], |c| {
        n += 1;
        for v in 0..variants {
            if let Some(m) = judge(&c, v + n) {
                bad += 1;
                if bad <= 200 { out.push_str(&m.to_string()); out.push('\n'); }
                break;
            }
        }
    });
    std::fs::write(&args[1], out).unwrap();
    println!("{}", json!({"programs": n, "layouts": n * variants, "mismatches": bad}));
    0
}

fn cls_char(c: &str) -> &'static str {
    match c { "nl" => "\n", "cr" => "\r", "tab" => "\t", "sp" => " ", "a" => "a", "m2" => "é", "m3" => "→", "m4" => "😀", "T" => "tok", _ => "?" }
}

/// xv locfn-replay <tlc-output> <mismatches>: lex::token_location in isolation
pub fn cmd_fn_replay(args: &[String]) -> i32 {
    let mut n = 0usize;
    let mut bad = 0usize;
    let mut out = String::new();
    for_each_replay_line(&args[0], |c| {
        n += 1;
        let classes: Vec<&str> = c["text"].as_array().map(|a| a.iter().map(|x| x.as_str().unwrap_or("")).collect()).unwrap_or_default();
        let p = c["p"].as_u64().unwrap_or(1) as usize;
        let mut text = String::new();
        let mut tok_start = 0usize;
        for (i, cl) in classes.iter().enumerate() {
            if i + 1 == p { tok_start = text.len(); }
            text.push_str(cls_char(cl));
        }
        let from = c["from"].as_u64().unwrap_or(1) as usize;
        let to = c["to"].as_u64().unwrap_or(0) as usize;
        let whole: String = classes[from - 1..to].iter().map(|x| cls_char(x)).collect();
        let buf = Xstr::from(text.as_str());
        let token = buf.substr(tok_start..tok_start + 3);
        let name = Xstr::from("t.xeh");
        let r = guarded(|| token_location(&[(name.clone(), buf.clone())], &token));
        let mut why: Vec<String> = vec![];
        match r {
            Outcome::Panic(m) => why.push(format!("panic: {}", m)),
            Outcome::Done(None) => why.push("no location".into()),
            Outcome::Done(Some(loc)) => {
                if Some(loc.line as u64) != c["line"].as_u64() || Some(loc.col as u64) != c["col"].as_u64() {
                    why.push(format!("line {} column {}, the specification says line {} column {}", loc.line, loc.col, c["line"], c["col"]));
                }
                if loc.whole_line.as_str() != whole {
                    why.push(format!("quoted line {:?}, the specification says {:?}", loc.whole_line.as_str(), whole));
                }
                // the harness's own reference must agree with the specification too (it is used by loc-replay)
                let (l2, c2, w2) = locate(&text, tok_start);
                if Some(l2 as u64) != c["line"].as_u64() || Some(c2 as u64) != c["col"].as_u64() || w2 != whole {
                    why.push("HARNESS: the reference location function disagrees with the specification".into());
                }
            }
        }
        if !why.is_empty() {
            bad += 1;
            if bad <= 200 { out.push_str(&json!({"text": text, "why": why}).to_string()); out.push('\n'); }
        }
    });
    std::fs::write(&args[1], out).unwrap();
    println!("{}", json!({"texts": n, "mismatches": bad}));
    0
}

// ------------------------------------------------------------------ nested sources and build-time execution (MC_C17D)
const SEPS_PLAIN: [&str; 4] = [" ", "  ", "\t", " \t "];

/// Lay out one source; returns the text and the byte range of every abstract token.
fn layout(toks: &[String], texts: &[Option<String>], files: &[Option<String>], variant: usize, rich: bool, lead: bool) -> (String, Vec<(usize, usize)>) {
    let mut text = String::new();
    if lead && variant % 3 == 1 { text.push_str("\"é→😀\" drop "); }
    if lead && variant % 3 == 2 { text.push_str("\\ commentaire é\r\n"); }
    let mut ranges = vec![];
    for (i, t) in toks.iter().enumerate() {
        if i > 0 {
            text.push_str(if rich { SEPS[(variant * 5 + i * 3) % SEPS.len()] } else { SEPS_PLAIN[(variant + i) % SEPS_PLAIN.len()] });
        }
        let s = text.len();
        if let Some(k) = t.strip_prefix("@inj:") {
            let k: usize = k.parse().unwrap();
            text.push_str(&format!("#( \"{}\" ~)", texts[k - 1].as_ref().unwrap()));
        } else if let Some(k) = t.strip_prefix("@inc:") {
            let k: usize = k.parse().unwrap();
            text.push_str(&format!("include \"{}\"", files[k - 1].as_ref().unwrap()));
        } else {
            text.push_str(t);
        }
        ranges.push((s, text.len()));
    }
    if lead && variant % 2 == 1 { text.push_str("\n1 2"); }
    (text, ranges)
}

pub fn judge_nested(case: &Value, variant: usize, scratch: &str, serial: usize) -> Option<Value> {
    let srcs: Vec<Vec<String>> = case["srcs"].as_array().map(|a| a.iter().map(|s| s.as_array().map(|t| t.iter().map(|x| x.as_str().unwrap_or("").to_string()).collect()).unwrap_or_default()).collect()).unwrap_or_default();
    let n = srcs.len();
    let included: Vec<bool> = (0..n).map(|k| srcs.iter().any(|s| s.iter().any(|t| *t == format!("@inc:{}", k + 1)))).collect();
    let mut texts: Vec<Option<String>> = vec![None; n];
    let mut files: Vec<Option<String>> = vec![None; n];
    let mut ranges: Vec<Vec<(usize, usize)>> = vec![vec![]; n];
    // inner sources first (a source only refers to later ones)
    for k in (0..n).rev() {
        let rich = k == 0 || included[k]; // text injected through a string literal keeps to blanks and tabs
        let (t, r) = layout(&srcs[k], &texts, &files, variant, rich, k == 0);
        if included[k] {
            let path = format!("{}/inc_{}_{}_{}.xeh", scratch, serial, variant, k + 1);
            std::fs::write(&path, &t).unwrap();
            files[k] = Some(path);
        }
        texts[k] = Some(t);
        ranges[k] = r;
    }
    let mut xs = fresh();
    let prior = variant % 3;
    if prior >= 1 { let _ = xs.eval("1 drop"); }
    let outer = texts[0].clone().unwrap();
    if prior >= 2 { let _ = guarded(|| xs.eval(&outer)); let _ = xs.eval("depth 0 do drop loop"); }
    let nsrc = xs.verif_dump().sources_len;
    let r = guarded(|| xs.eval(&outer));
    let fsrc = case["src"].as_u64().unwrap_or(1) as usize - 1;
    let ftok = case["tok"].as_u64().unwrap_or(1) as usize - 1;
    let mut why: Vec<String> = vec![];
    match r {
        Outcome::Panic(m) => why.push(format!("panic: {}", m)),
        Outcome::Done(Ok(())) => why.push("the program did not fail".into()),
        Outcome::Done(Err(e)) => {
            if err_class(&e) != case["cls"].as_str().unwrap_or("") {
                why.push(format!("error class {} ({}), expected {}", err_class(&e), e, case["cls"]));
            }
            match xs.last_err_location() {
                None => why.push("no error location".into()),
                Some(loc) => {
                    let want = ranges[fsrc][ftok];
                    let wtext = texts[fsrc].as_ref().unwrap();
                    let tr = loc.token.range();
                    let fname = if included[fsrc] { files[fsrc].clone().unwrap() } else { format!("<buffer#{}>", nsrc + fsrc) };
                    if loc.filename.as_str() != fname {
                        why.push(format!("names the source {:?}, the failing token {:?} is in {:?}", loc.filename.as_str(), &wtext[want.0..want.1], fname));
                    }
                    if (tr.start, tr.end) != want || loc.token.as_str() != &wtext[want.0..want.1] {
                        why.push(format!("blames {:?} at bytes {}..{} of {:?}, the failing token is {:?} at {}..{} of {:?}", loc.token.as_str(), tr.start, tr.end,
                                         loc.filename.as_str(), &wtext[want.0..want.1], want.0, want.1, fname));
                    } else {
                        let (line, col, whole) = locate(wtext, tr.start);
                        if loc.line != line || loc.col != col {
                            why.push(format!("reports line {} column {}, the token is at line {} column {}", loc.line, loc.col, line, col));
                        }
                        if loc.whole_line.as_str() != whole {
                            why.push(format!("quotes the line {:?}, the token's line is {:?}", loc.whole_line.as_str(), whole));
                        }
                    }
                }
            }
            match guarded(|| xs.pretty_error()) {
                Outcome::Panic(m) => why.push(format!("pretty_error panicked: {}", m)),
                Outcome::Done(None) => why.push("pretty_error returned nothing".into()),
                Outcome::Done(Some(_)) => {}
            }
        }
    }
    for f in files.iter().flatten() { let _ = std::fs::remove_file(f); }
    if why.is_empty() { None } else { Some(json!({"text": outer, "sources": texts, "kind": case["kind"], "why": why, "variant": variant})) }
}

/// xv locnest-replay <tlc-output> <mismatches> <variants> <scratch dir (absolute)>
pub fn cmd_nested_replay(args: &[String]) -> i32 {
    let variants: usize = args.get(2).and_then(|s| s.parse().ok()).unwrap_or(3);
    let scratch = args[3].clone();
    let mut n = 0usize;
    let mut bad = 0usize;
    let mut out = String::new();
    for_each_replay_line(&args[0], |c| {
        n += 1;
        for v in 0..variants {
            if let Some(m) = judge_nested(&c, v, &scratch, n) {
                bad += 1;
                if bad <= 200 { out.push_str(&m.to_string()); out.push('\n'); }
                break;
            }
        }
    });
    std::fs::write(&args[1], out).unwrap();
    println!("{}", json!({"programs": n, "layouts": n * variants, "mismatches": bad}));
    0
}
