//! Shared plumbing of the conformance harness: canonical JSON projections of xeh values,
//! error classes, state dumps, a deterministic PRNG and panic-capturing call wrappers.
//! Everything here only *observes* xeh through its public API plus the `verif_hooks` dumps.

use serde_json::{json, Map, Value};
use std::panic::{catch_unwind, AssertUnwindSafe};
use xeh::bitstr::Bitstr;
use xeh::prelude::*;
use xeh::state::verif::VerifDump;

pub mod gen;
pub mod prog;
pub mod rev;
pub mod drive;
pub mod limits;
pub mod letrep;
pub mod twin;
pub mod bitsrep;
pub mod codec;
pub mod cursor;
pub mod pack;
pub mod arith;
pub mod coll;
pub mod tags;
pub mod lexrep;
pub mod loc;
pub mod textcodec;
pub mod clone;
pub mod total;

// ------------------------------------------------------------------ PRNG (splitmix64)
#[derive(Clone)]
pub struct Rng(pub u64);
impl Rng {
    pub fn new(seed: u64) -> Self {
        Rng(seed.wrapping_mul(0x9E3779B97F4A7C15) ^ 0xD1B54A32D192ED03)
    }
    pub fn next(&mut self) -> u64 {
        self.0 = self.0.wrapping_add(0x9E3779B97F4A7C15);
        let mut z = self.0;
        z = (z ^ (z >> 30)).wrapping_mul(0xBF58476D1CE4E5B9);
        z = (z ^ (z >> 27)).wrapping_mul(0x94D049BB133111EB);
        z ^ (z >> 31)
    }
    pub fn below(&mut self, n: usize) -> usize {
        if n == 0 {
            0
        } else {
            (self.next() % n as u64) as usize
        }
    }
    pub fn range(&mut self, lo: i64, hi: i64) -> i64 {
        lo + (self.next() % ((hi - lo + 1) as u64)) as i64
    }
    pub fn chance(&mut self, num: usize, den: usize) -> bool {
        self.below(den) < num
    }
    pub fn pick<'a, T>(&mut self, xs: &'a [T]) -> &'a T {
        &xs[self.below(xs.len())]
    }
}

// ------------------------------------------------------------------ cells
pub const SMALL: i128 = 1 << 30;

pub fn bits_of(bs: &Bitstr) -> Vec<u8> {
    bs.bits().collect()
}

pub fn bits_json(bs: &Bitstr) -> Value {
    Value::Array(bs.bits().map(|b| json!(b)).collect())
}

/// Canonical rendering of a cell (DESIGN appendix A). Shared structure is rendered by value.
pub fn cell_json(c: &Cell) -> Value {
    match c {
        Cell::Nil => json!({"ty":"nil"}),
        Cell::Flag(b) => json!({"ty":"flag","b": if *b {1} else {0}}),
        Cell::Int(i) => {
            if -SMALL < *i && *i < SMALL {
                json!({"ty":"int","i": *i as i64})
            } else {
                json!({"ty":"int","big": i.to_string()})
            }
        }
        Cell::Real(r) => json!({"ty":"real","bits": format!("{:016x}", r.to_bits())}),
        Cell::Str(s) => json!({"ty":"str","s": s.as_str()}),
        Cell::Vector(v) => json!({"ty":"vec","items": v.iter().map(cell_json).collect::<Vec<_>>()}),
        Cell::Map(m) => {
            let mut kv: Vec<(String, Value)> = m
                .iter()
                .map(|(k, v)| {
                    let kj = cell_json(k);
                    (kj.to_string(), json!([kj, cell_json(v)]))
                })
                .collect();
            kv.sort_by(|a, b| a.0.cmp(&b.0));
            json!({"ty":"map","kv": kv.into_iter().map(|x| x.1).collect::<Vec<_>>()})
        }
        Cell::Fun(Xfn::Interp(a)) => json!({"ty":"fun","k":"interp","a":a}),
        Cell::Fun(Xfn::Native(_)) => json!({"ty":"fun","k":"native"}),
        Cell::Bitstr(bs) => json!({"ty":"bits","b": bits_json(bs)}),
        Cell::AnyRc(_) => json!({"ty":"any"}),
        Cell::WithTag(_) => {
            let tags = c.tags().cloned().unwrap_or_default();
            let mut kv: Vec<(String, Value)> = tags
                .iter()
                .map(|(k, v)| {
                    let kj = cell_json(k);
                    (kj.to_string(), json!([kj, cell_json(v)]))
                })
                .collect();
            kv.sort_by(|a, b| a.0.cmp(&b.0));
            json!({"ty":"tag","v": cell_json(c.value()), "tags": kv.into_iter().map(|x| x.1).collect::<Vec<_>>()})
        }
    }
}

/// Same as cell_json but with every tag wrapper removed at every depth.
pub fn cell_json_untagged(c: &Cell) -> Value {
    match c.value() {
        Cell::Vector(v) => {
            json!({"ty":"vec","items": v.iter().map(cell_json_untagged).collect::<Vec<_>>()})
        }
        Cell::Map(m) => {
            let mut kv: Vec<(String, Value)> = m
                .iter()
                .map(|(k, v)| {
                    let kj = cell_json_untagged(k);
                    (kj.to_string(), json!([kj, cell_json_untagged(v)]))
                })
                .collect();
            kv.sort_by(|a, b| a.0.cmp(&b.0));
            json!({"ty":"map","kv": kv.into_iter().map(|x| x.1).collect::<Vec<_>>()})
        }
        other => cell_json(other),
    }
}

pub fn bitstr_from_bits(bits: &[u8]) -> Bitstr {
    let mut b = xeh::bitstr::BitvecBuilder::default();
    for x in bits {
        b.append_bit(*x);
    }
    b.finish()
}

/// Build a cell from its canonical JSON (used to construct arguments).
pub fn json_cell(v: &Value) -> Cell {
    let ty = v["ty"].as_str().unwrap_or("nil");
    match ty {
        "nil" => Cell::Nil,
        "flag" => Cell::Flag(v["b"].as_i64().unwrap_or(0) != 0),
        "int" => {
            if let Some(s) = v.get("big").and_then(|x| x.as_str()) {
                Cell::Int(s.parse::<i128>().expect("big int"))
            } else {
                Cell::Int(v["i"].as_i64().unwrap_or(0) as i128)
            }
        }
        "real" => {
            let bits = u64::from_str_radix(v["bits"].as_str().unwrap_or("0"), 16).unwrap();
            Cell::Real(f64::from_bits(bits))
        }
        "str" => Cell::from(v["s"].as_str().unwrap_or("")),
        "vec" => {
            let mut xv = Xvec::new();
            for x in v["items"].as_array().map(|a| a.as_slice()).unwrap_or(&[]) {
                xv.push_back_mut(json_cell(x));
            }
            Cell::Vector(xv)
        }
        "map" => {
            let mut m = Xmap::new();
            for kv in v["kv"].as_array().map(|a| a.as_slice()).unwrap_or(&[]) {
                m.insert_mut(json_cell(&kv[0]), json_cell(&kv[1]));
            }
            Cell::Map(m)
        }
        "bits" => {
            let bits: Vec<u8> = v["b"]
                .as_array()
                .map(|a| a.iter().map(|x| x.as_u64().unwrap_or(0) as u8).collect())
                .unwrap_or_default();
            Cell::Bitstr(bitstr_from_bits(&bits))
        }
        "tag" => {
            let inner = json_cell(&v["v"]);
            let mut m = Xmap::new();
            for kv in v["tags"].as_array().map(|a| a.as_slice()).unwrap_or(&[]) {
                m.insert_mut(json_cell(&kv[0]), json_cell(&kv[1]));
            }
            inner.with_tags(m)
        }
        _ => Cell::Nil,
    }
}

// ------------------------------------------------------------------ errors
/// Error classes (DESIGN section 3, Values.tla). Only the class is ever compared, plus payloads
/// where a property asks for them.
pub fn err_class(e: &Xerr) -> &'static str {
    match e {
        Xerr::UnknownWord(_) => "Unknown",
        Xerr::ParseError { .. } => "Parse",
        Xerr::StrDecodeError { .. } => "Parse",
        Xerr::ExpectingName => "Name",
        Xerr::ExpectingLiteral => "Name",
        Xerr::ControlFlowError { .. } => "ControlFlow",
        Xerr::IntegerOverflow => "Overflow",
        Xerr::DivisionByZero => "DivZero",
        Xerr::StackUnderflow => "Underflow",
        Xerr::ReturnStackUnderflow => "RsUnderflow",
        Xerr::LoopStackUnderflow => "LsUnderflow",
        Xerr::TypeError => "Type",
        Xerr::TypeErrorMsg { .. } => "Type",
        Xerr::TypeNotSupported { .. } => "Type",
        Xerr::IOError { .. } => "IO",
        Xerr::OutOfBounds { .. } => "Bounds",
        Xerr::AssertFailed => "Assert",
        Xerr::AssertEqFailed { .. } => "Assert",
        Xerr::InternalError => "Internal",
        Xerr::ReadError { .. } => "Read",
        Xerr::SeekError { .. } => "Seek",
        Xerr::MatchError { .. } => "Match",
        Xerr::ToBytestrError(_) => "Bytestr",
        Xerr::BitstrSliceError(_) => "Bytestr",
        Xerr::ErrorMsg(m) => {
            let s = m.as_str();
            if s.contains("limit reached") {
                "Limit"
            } else if s.contains("can operate only with constants") {
                "Context"
            } else if s.contains("unbalanced context") {
                "Context"
            } else if s.contains("local variable index") {
                "Local"
            } else {
                "Msg"
            }
        }
        Xerr::UserError(_) => "User",
        Xerr::Exit(_) => "Exit",
    }
}

/// The operand an error carries, when it carries one.
pub fn err_payload(e: &Xerr) -> Option<Cell> {
    match e {
        Xerr::TypeErrorMsg { val, .. } => Some(val.clone()),
        Xerr::TypeNotSupported { val } => Some(val.clone()),
        Xerr::UserError(v) => Some(v.clone()),
        _ => None,
    }
}

pub fn res_json(r: &Result<(), Xerr>) -> Value {
    match r {
        Ok(()) => json!({"ok": 1}),
        Err(e) => {
            let mut m = Map::new();
            m.insert("ok".into(), json!(0));
            m.insert("cls".into(), json!(err_class(e)));
            if let Some(p) = err_payload(e) {
                m.insert("payload".into(), cell_json(&p));
            }
            Value::Object(m)
        }
    }
}

// ------------------------------------------------------------------ panics
pub enum Outcome<T> {
    Done(T),
    Panic(String),
}

/// Run one API call; a panic is data (an outcome no specification action produces).
pub fn guarded<T>(f: impl FnOnce() -> T) -> Outcome<T> {
    match catch_unwind(AssertUnwindSafe(f)) {
        Ok(v) => Outcome::Done(v),
        Err(p) => {
            let msg = if let Some(s) = p.downcast_ref::<&str>() {
                s.to_string()
            } else if let Some(s) = p.downcast_ref::<String>() {
                s.clone()
            } else {
                "panic".to_string()
            };
            Outcome::Panic(msg)
        }
    }
}

thread_local! { pub static LAST_PANIC: std::cell::RefCell<String> = std::cell::RefCell::new(String::new()); }

/// Panics are data (caught by `guarded`): nothing is printed, but the last message and location are kept so that a panic
/// outside a guarded section can be reported by the entry point.
pub fn quiet_panics() {
    std::panic::set_hook(Box::new(|info| {
        let msg = info.to_string();
        LAST_PANIC.with(|l| *l.borrow_mut() = msg);
    }));
}

// ------------------------------------------------------------------ interpreter helpers
pub const DEFAULT_INSN_LIMIT: usize = 200_000;
pub const DEFAULT_STACK_LIMIT: usize = 10_000;

/// A booted interpreter with captured stdout and the limits the properties presuppose.
pub fn fresh() -> Xstate {
    let mut xs = Xstate::boot().expect("boot");
    xs.intercept_stdout(true);
    xs.intercept_output(true).unwrap();
    xs.set_insn_limit(Some(DEFAULT_INSN_LIMIT)).unwrap();
    xs.set_stack_limit(Some(DEFAULT_STACK_LIMIT)).unwrap();
    xs
}

pub fn visible_stack(xs: &Xstate) -> Vec<Cell> {
    let n = xs.data_depth();
    let mut v: Vec<Cell> = (0..n).filter_map(|i| xs.get_data(i).cloned()).collect();
    v.reverse();
    v
}

pub fn stack_json(xs: &Xstate) -> Value {
    Value::Array(visible_stack(xs).iter().map(cell_json).collect())
}

pub fn vars_json(xs: &Xstate, names: &[String]) -> Value {
    let mut m = Map::new();
    for n in names {
        let v = match xs.get_var_value(n) {
            Ok(c) => cell_json(c),
            Err(_) => json!({"ty":"unknown"}),
        };
        m.insert(n.clone(), v);
    }
    Value::Object(m)
}

fn opt(n: Option<usize>) -> Value {
    match n {
        Some(x) => json!(x),
        None => Value::Null,
    }
}

/// Full canonical dump (DESIGN appendix A).
pub fn dump_json(d: &VerifDump) -> Value {
    let ctxj = |c: &xeh::state::verif::VerifCtx| {
        json!({"ds_len":c.ds_len,"cs_len":c.cs_len,"rs_len":c.rs_len,"fs_len":c.fs_len,
               "ls_len":c.ls_len,"ss_ptr":c.ss_ptr,"di_len":c.di_len,"ip":c.ip,"mode":c.mode})
    };
    json!({
        "ip": d.ip,
        "mode": d.ctx.mode,
        "ctx": ctxj(&d.ctx),
        "nest": d.nested.iter().map(ctxj).collect::<Vec<_>>(),
        "flow": d.flow,
        "inputs": d.inputs,
        "ds": d.data_stack.iter().map(cell_json).collect::<Vec<_>>(),
        "rs": d.return_stack.iter().map(|f| json!({"fn":f.fn_addr,"ret":f.return_to,
                 "locals": f.locals.iter().map(cell_json).collect::<Vec<_>>()})).collect::<Vec<_>>(),
        "ls": d.loops.iter().map(|l| json!({"s":l.start,"e":l.end,"items":cell_json(&l.items)})).collect::<Vec<_>>(),
        "ss": d.special,
        "heap": d.heap.iter().map(cell_json).collect::<Vec<_>>(),
        "dict": d.dict_len, "code": d.code_len, "dbg": d.debug_map_len, "sources": d.sources_len,
        "meter": d.insn_meter,
        "lim": {"insn": opt(d.insn_limit), "stack": opt(d.stack_limit), "heap": opt(d.heap_limit)},
        "rec": d.recording,
        "rlog": d.rlog.len(),
    })
}

/// The reversible machine state named by C02: ip, whole data stack, frames with locals,
/// loop entries, vector-builder marks, heap. (Not the meter, not stdout.)
pub fn proj_machine(d: &VerifDump) -> Value {
    json!({
        "ip": d.ip,
        "ds": d.data_stack.iter().map(cell_json).collect::<Vec<_>>(),
        "rs": d.return_stack.iter().map(|f| json!({"fn":f.fn_addr,"ret":f.return_to,
                 "locals": f.locals.iter().map(cell_json).collect::<Vec<_>>()})).collect::<Vec<_>>(),
        "ls": d.loops.iter().map(|l| json!({"s":l.start,"e":l.end,"items":cell_json(&l.items)})).collect::<Vec<_>>(),
        "ss": d.special,
        "heap": d.heap.iter().map(cell_json).collect::<Vec<_>>(),
    })
}

pub fn fnv(s: &str) -> String {
    let mut h: u64 = 0xcbf29ce484222325;
    for b in s.as_bytes() {
        h ^= *b as u64;
        h = h.wrapping_mul(0x100000001b3);
    }
    format!("{:016x}", h)
}

/// Deep comparison restricted to the keys present in `exp`: the specification predicts only
/// the observables a property names; everything else in `obs` is ignored.
pub fn matches_expected(exp: &Value, obs: &Value) -> bool {
    match (exp, obs) {
        (Value::Object(e), Value::Object(o)) => e.iter().all(|(k, ev)| match o.get(k) {
            Some(ov) => matches_expected(ev, ov),
            None => false,
        }),
        (Value::Array(e), Value::Array(o)) => {
            e.len() == o.len() && e.iter().zip(o.iter()).all(|(a, b)| matches_expected(a, b))
        }
        (Value::Number(a), Value::Number(b)) => a.as_f64() == b.as_f64(),
        (a, b) => a == b,
    }
}

pub fn read_lines(path: &str) -> Vec<Value> {
    let s = std::fs::read_to_string(path).unwrap_or_else(|e| {
        eprintln!("cannot read {}: {}", path, e);
        std::process::exit(2)
    });
    s.lines()
        .filter(|l| !l.trim().is_empty())
        .map(|l| {
            serde_json::from_str(l).unwrap_or_else(|e| {
                eprintln!("bad json line: {} ({})", l, e);
                std::process::exit(2)
            })
        })
        .collect()
}


/// Iterate over behaviours exported by TLC: accepts either NDJSON or raw TLC output with
/// lines of the form `<<"REPLAY", "<escaped json>">>`.
pub fn for_each_replay_line(path: &str, mut f: impl FnMut(Value)) {
    use std::io::BufRead;
    let file = std::fs::File::open(path).unwrap_or_else(|e| {
        eprintln!("cannot read {}: {}", path, e);
        std::process::exit(2)
    });
    // a panic of the code under test outside the judge's own guarded sections (while a state is built, dumped or
    // dropped) ends that case only: it is written to $XV_PANIC_FILE (the orchestrator reports it) and replay goes on
    let mut call = |v: Value| {
        let keep = v.clone();
        if let Err(_) = catch_unwind(AssertUnwindSafe(|| f(v))) {
            let msg = LAST_PANIC.with(|l| l.borrow().clone());
            if let Ok(path) = std::env::var("XV_PANIC_FILE") {
                use std::io::Write;
                if let Ok(mut fh) = std::fs::OpenOptions::new().create(true).append(true).open(path) {
                    let _ = writeln!(fh, "{}", serde_json::json!({"case": keep, "panic": msg}));
                }
            } else {
                eprintln!("UNGUARDED-PANIC {} on case {}", msg, keep);
            }
        }
    };
    for line in std::io::BufReader::with_capacity(1 << 20, file).lines() {
        let line = match line { Ok(l) => l, Err(_) => continue };
        let l = line.trim();
        if l.starts_with('{') {
            if let Ok(v) = serde_json::from_str::<Value>(l) {
                call(v);
            }
        } else if let Some(rest) = l.strip_prefix("<<\"REPLAY\", ") {
            if let Some(body) = rest.strip_suffix(">>") {
                if let Ok(Value::String(inner)) = serde_json::from_str::<Value>(body) {
                    if let Ok(v) = serde_json::from_str::<Value>(&inner) {
                        call(v);
                    }
                }
            }
        }
    }
}
