//! C16: texts over character classes (spec/Lexer.tla) are concretised with several concrete characters per
//! class (1-4 byte UTF-8) and fed to xeh::lex::Lex::next in a loop.
use crate::*;
use serde_json::{json, Value};
use xeh::lex::{Lex, Tok};

fn reps(class: &str) -> &'static [&'static str] {
    match class {
        "sp" => &[" ", "\t", "\r"],
        "nl" => &["\n"],
        "d0" => &["0"],
        "d1" => &["1"],
        "d7" => &["7", "9"],
        "hx" => &["f", "F", "a"],
        "b" => &["b"],
        "x" => &["x"],
        "us" => &["_"],
        "dot" => &["."],
        "mi" => &["-"],
        "pl" => &["+"],
        "dq" => &["\""],
        "lq" => &["\u{201C}"],
        "rq" => &["\u{201D}"],
        "bs" => &["\\"],
        "bar" => &["|"],
        "lp" => &["("],
        "rp" => &[")"],
        "al" => &["q", "Z", "g", ":", "#", "~"],
        "n" => &["n"],
        "mb" => &["é", "→", "😀", "\u{00A0}"],
        _ => &["?"],
    }
}

fn digit_value(ch: &str) -> i128 {
    i128::from_str_radix(ch, 16).unwrap_or(0)
}

pub fn judge(case: &Value, variant: usize) -> Option<Value> {
    let classes: Vec<String> = case["text"].as_array().map(|a| a.iter().map(|x| x.as_str().unwrap_or("").to_string()).collect()).unwrap_or_default();
    // concretise: position i uses representative (variant + i) mod n
    let chars: Vec<&str> = classes.iter().enumerate().map(|(i, c)| { let r = reps(c); r[(variant + i * 7) % r.len()] }).collect();
    // hex letter values depend on the representative: the predicted int is recomputed from the concrete digits below
    let text: String = chars.concat();
    let toks = case["toks"].as_array().cloned().unwrap_or_default();
    let mut why: Vec<String> = vec![];
    let r = guarded(|| {
        let mut why: Vec<String> = vec![];
        let mut lex = Lex::new(Xstr::from(text.as_str()));
        let mut covered = String::new();
        for (k, exp) in toks.iter().enumerate() {
            if k > classes.len() + 1 {
                why.push("the lexer did not terminate within len+1 calls".into());
                break;
            }
            let got = lex.next();
            let sub = lex.last_substr().to_string();
            let s = exp["s"].as_u64().unwrap_or(1) as usize;
            let e = exp["e"].as_u64().unwrap_or(0) as usize;
            let exp_text: String = if e >= s { chars[s - 1..e].concat() } else { String::new() };
            let kind = exp["k"].as_str().unwrap_or("");
            match (&got, kind) {
                (Ok(Tok::EndOfInput), "eof") => {}
                (Ok(Tok::Whitespace(_)), "ws") | (Ok(Tok::Word(_)), "word") | (Ok(Tok::Comment(_)), "comment") => {
                    if sub != exp_text { why.push(format!("token {} text {:?}, expected {:?}", k, sub, exp_text)); }
                    // the text carried by the token itself (what a consumer of Tok sees), not only last_substr()
                    match &got {
                        Ok(Tok::Word(w)) => { if w.as_str() != exp_text { why.push(format!("word {:?} expected {:?}", w.as_str(), exp_text)); } }
                        Ok(Tok::Whitespace(w)) => { if w.as_str() != exp_text { why.push(format!("whitespace token carries {:?}, its text is {:?}", w.as_str(), exp_text)); } }
                        Ok(Tok::Comment(w)) => { if w.as_str() != exp_text { why.push(format!("comment token carries {:?}, its text is {:?}", w.as_str(), exp_text)); } }
                        _ => {}
                    }
                }
                (Ok(Tok::Literal(c)), "str") => {
                    if sub != exp_text { why.push(format!("token {} text {:?}, expected {:?}", k, sub, exp_text)); }
                    // decoded content: the denotation lists classes (escapes already decoded)
                    let mut pos = s; // walk the concrete characters again to build the expected string
                    let mut want = String::new();
                    let body: Vec<&str> = chars[s..e - 1].to_vec();
                    let mut i = 0;
                    while i < body.len() {
                        if body[i] == "\\" { let c2 = body[i + 1]; want.push_str(match c2 { "n" => "\n", other => other }); i += 2; } else { want.push_str(body[i]); i += 1; }
                    }
                    let _ = &mut pos;
                    if c.str().ok() != Some(want.as_str()) { why.push(format!("string literal decodes to {:?}, expected {:?}", c, want)); }
                    if exp["den"].as_array().map(|d| d.len()) != Some(want.chars().count()) { why.push("denotation length differs from the specification's".into()); }
                }
                (Ok(Tok::Literal(c)), "bits") => {
                    if sub != exp_text { why.push(format!("token {} text {:?}, expected {:?}", k, sub, exp_text)); }
                    // bits: recompute hex digits from the concrete representatives
                    let mut want: Vec<u8> = vec![];
                    for ch in chars[s..e - 1].iter() {
                        if let Some(d) = ch.chars().next().and_then(|c| c.to_digit(16)) { for i in (0..4).rev() { want.push(((d >> i) & 1) as u8); } }
                        else if *ch == "." { want.push(0) } else if *ch == "x" { want.push(1) }
                    }
                    let gotb: Option<Vec<u8>> = c.bitstr().ok().map(|b| b.bits().collect());
                    if gotb.as_deref() != Some(&want[..]) { why.push(format!("bit-string literal {:?}, expected bits {:?}", c, want)); }
                    if exp["den"].as_array().map(|d| d.len()) != Some(want.len()) { why.push("bit count differs from the specification's".into()); }
                }
                (Ok(Tok::Literal(c)), "int") => {
                    if sub != exp_text { why.push(format!("token {} text {:?}, expected {:?}", k, sub, exp_text)); }
                    // mathematical value from the concrete text: sign, radix marker, digits without '_'
                    // the radix marker is recognised on the raw text; `_` separators are dropped afterwards
                    let t: String = exp_text.clone();
                    let (neg, rest) = if let Some(r) = t.strip_prefix('-') { (true, r.to_string()) } else if let Some(r) = t.strip_prefix('+') { (false, r.to_string()) } else { (false, t.clone()) };
                    let (radix, digits) = if let Some(r) = rest.strip_prefix("0b") { (2, r.to_string()) } else if let Some(r) = rest.strip_prefix("0x") { (16, r.to_string()) } else if rest.starts_with('0') { (16, rest.clone()) } else { (10, rest.clone()) };
                    let digits: String = digits.chars().filter(|c| *c != '_').collect();
                    let mut v: i128 = 0;
                    for ch in digits.chars() { v = v * radix + digit_value(&ch.to_string()); }
                    if neg { v = -v; }
                    if c.to_xint().ok() != Some(v) { why.push(format!("integer literal {:?} reads as {:?}, expected {}", exp_text, c, v)); }
                }
                (Ok(Tok::Literal(c)), "real") => {
                    if sub != exp_text { why.push(format!("token {} text {:?}, expected {:?}", k, sub, exp_text)); }
                    let t: String = exp_text.chars().filter(|c| *c != '_').collect();
                    let want = t.parse::<f64>().ok();
                    if c.to_real().ok().map(|x| x.to_bits()) != want.map(|x| x.to_bits()) { why.push(format!("real literal {:?} reads as {:?}, expected {:?}", exp_text, c, want)); }
                }
                (Err(_), "error") => {
                    // the text reported up to the error must be a prefix-tiling: what was covered so far + nothing lost
                    break;
                }
                (other, kind) => {
                    why.push(format!("token {}: got {:?} ({:?}), the specification says {} {:?}", k, other, sub, kind, exp_text));
                    break;
                }
            }
            covered.push_str(&sub);
            if !text.starts_with(&covered) {
                why.push(format!("token texts no longer tile the input: {:?} vs {:?}", covered, text));
                break;
            }
            if kind == "eof" {
                if covered != text { why.push(format!("end of input reached but the token texts cover {:?} of {:?}", covered, text)); }
                break;
            }
        }
        why
    });
    match r {
        Outcome::Panic(m) => why.push(format!("panic: {}", m)),
        Outcome::Done(w) => why.extend(w),
    }
    if why.is_empty() { None } else { Some(json!({"text": text, "classes": classes, "why": why})) }
}

/// xv lex-replay <tlc-output> <mismatches> <variants>
pub fn cmd_replay(args: &[String]) -> i32 {
    let variants: usize = args.get(2).and_then(|s| s.parse().ok()).unwrap_or(2);
    let mut n = 0usize;
    let mut bad = 0usize;
    let mut out = String::new();
    for_each_replay_line(&args[0], |c| {
        n += 1;
        for v in 0..variants {
            if let Some(m) = judge(&c, v) {
                bad += 1;
                if bad <= 300 {
                    out.push_str(&m.to_string());
                    out.push('\n');
                }
                break;
            }
        }
    });
    std::fs::write(&args[1], out).unwrap();
    println!("{}", json!({"texts": n, "concretisations": n * variants, "mismatches": bad}));
    0
}

/// xv print-replay <tlc-output> <mismatches>: format_cell(v) must be the predicted literal text and read back equal
pub fn cmd_print_replay(args: &[String]) -> i32 {
    let mut n = 0usize;
    let mut bad = 0usize;
    let mut out = String::new();
    for_each_replay_line(&args[0], |c| {
        n += 1;
        let v = json_cell(&c["v"]);
        let want: String = c["text"].as_array().map(|a| a.iter().map(|x| x.as_str().unwrap_or("")).collect()).unwrap_or_default();
        let mut why: Vec<String> = vec![];
        let xs0 = fresh();
        let printed = xs0.format_cell(&v).unwrap_or_default();
        // map printing order is the tree's order; with a single orderable key type (ints here) it is ascending = the model's order
        if printed != want {
            why.push(format!("printed as {:?}, the literal syntax says {:?}", printed, want));
        }
        let mut xs = fresh();
        match guarded(|| xs.eval(&printed)) {
            Outcome::Done(Ok(())) => {
                if xs.data_depth() != 1 || xs.get_data(0) != Some(&v) {
                    why.push(format!("reading {:?} back gives {:?}", printed, xs.get_data(0)));
                }
            }
            Outcome::Done(Err(e)) => why.push(format!("reading {:?} back fails: {}", printed, e)),
            Outcome::Panic(m) => why.push(format!("panic: {}", m)),
        }
        if !why.is_empty() {
            bad += 1;
            out.push_str(&json!({"value": c["v"], "why": why}).to_string());
            out.push('\n');
        }
    });
    std::fs::write(&args[1], out).unwrap();
    println!("{}", json!({"values": n, "mismatches": bad}));
    0
}

/// xv lex-fuzz <trace> <seed> <n>: arbitrary UTF-8 (incl. dictionary words and literals up to the i128 range):
/// termination, tiling, and integer range rule, recorded for validation by TLC (Trace_Lexer)
pub fn cmd_fuzz(args: &[String]) -> i32 {
    let seed: u64 = args[1].parse().unwrap_or(1);
    let n: usize = args[2].parse().unwrap_or(1000);
    let mut rng = Rng::new(seed);
    let dict: Vec<String> = fresh().word_list().iter().map(|s| s.to_string()).collect();
    let frags: Vec<&str> = vec![" ", "\n", "\t", "\r\n", "\"", "\\", "\\(", "\\)", "|", "\u{201C}", "\u{201D}", "é", "→", "😀", "0x", "0b", "-", "+", ".", "_", "x", "ff", "12", "\\n", "\\\"", "[", "]", "#(", "1e5", "\u{0085}", "\u{2028}", "\u{00A0}", "a\u{0301}"];
    let bigs = ["170141183460469231731687303715884105727", "170141183460469231731687303715884105728", "-170141183460469231731687303715884105728",
                "-170141183460469231731687303715884105729", "0x7fffffffffffffffffffffffffffffff", "0x80000000000000000000000000000000", "0b1", "00ff", "1_000_000", "9999999999999999999999999999999999999999"];
    let mut trace = String::new();
    for i in 0..n {
        let mut text = String::new();
        for _ in 0..(1 + rng.below(12)) {
            match rng.below(8) {
                0 => text.push_str(&dict[rng.below(dict.len())]),
                1 => text.push_str(bigs[rng.below(bigs.len())]),
                2 => text.push(' '),
                _ => text.push_str(frags[rng.below(frags.len())]),
            }
        }
        let r = guarded(|| {
            let mut lex = Lex::new(Xstr::from(text.as_str()));
            let mut spans: Vec<Value> = vec![];
            let mut calls = 0usize;
            let mut ended = "limit";
            let mut pos = 0usize;
            while calls <= text.chars().count() + 1 {
                calls += 1;
                let got = lex.next();
                let sub = lex.last_substr();
                let r = sub.range();
                match got {
                    Ok(Tok::EndOfInput) => { ended = "eof"; break; }
                    // for tokens that carry their own text, the span is what the token carries
                    Ok(Tok::Word(w)) | Ok(Tok::Whitespace(w)) | Ok(Tok::Comment(w)) => {
                        let pr = w.range();
                        let same = pr.start == r.start && pr.end == r.end;
                        spans.push(json!([pr.start, pr.end]));
                        pos = if same { r.end } else { pr.end };
                    }
                    Ok(_) => { spans.push(json!([r.start, r.end])); pos = r.end; }
                    Err(_) => { ended = "error"; break; }
                }
            }
            (spans, calls, ended, pos)
        });
        match r {
            Outcome::Panic(_) => trace.push_str(&json!({"run": i, "text": text, "len": text.len(), "chars": text.chars().count(), "panic": 1, "spans": [], "calls": 0, "ended": "panic", "covered": 0}).to_string()),
            Outcome::Done((spans, calls, ended, pos)) => trace.push_str(&json!({"run": i, "text": text, "len": text.len(), "chars": text.chars().count(), "spans": spans, "calls": calls, "ended": ended, "covered": pos}).to_string()),
        }
        trace.push('\n');
    }
    std::fs::write(&args[0], trace).unwrap();
    println!("{}", json!({"texts": n}));
    0
}

// ------------------------------------------------------------------ numerals at the edge of the integer range (MC_C16R)
/// decimal digits of a magnitude given as bits (MSB first): repeated division by 10 on the bit vector
fn decimal_of(bits: &[u8]) -> String {
    let mut cur: Vec<u8> = bits.to_vec();
    let mut digits: Vec<u8> = vec![];
    loop {
        let mut rem = 0u32;
        let mut q: Vec<u8> = Vec::with_capacity(cur.len());
        for b in cur.iter() {
            rem = rem * 2 + *b as u32;
            if rem >= 10 { q.push(1); rem -= 10; } else { q.push(0); }
        }
        digits.push(rem as u8);
        let first = q.iter().position(|x| *x == 1);
        match first { None => break, Some(i) => cur = q[i..].to_vec() }
    }
    digits.iter().rev().map(|d| (b'0' + d) as char).collect()
}

fn hex_of(bits: &[u8]) -> String {
    let pad = (4 - bits.len() % 4) % 4;
    let mut all = vec![0u8; pad];
    all.extend_from_slice(bits);
    all.chunks(4).map(|g| std::char::from_digit(g.iter().fold(0u32, |a, b| a * 2 + *b as u32), 16).unwrap()).collect()
}

fn dress(digits: &str, how: &str) -> String {
    match how {
        "us" => {
            let mut s = String::new();
            for (i, ch) in digits.chars().enumerate() {
                if i > 0 && i % 3 == 0 { s.push('_'); }
                s.push(ch);
            }
            s
        }
        "zeros" => format!("000{}", digits),
        _ => digits.to_string(),
    }
}

/// xv lexrange-replay <tlc-output> <mismatches>
pub fn cmd_range_replay(args: &[String]) -> i32 {
    let mut n = 0usize;
    let mut bad = 0usize;
    let mut accepted = 0usize;
    let mut out = String::new();
    for_each_replay_line(&args[0], |c| {
        n += 1;
        let bits: Vec<u8> = c["mag"].as_array().map(|a| a.iter().map(|x| x.as_u64().unwrap_or(0) as u8).collect()).unwrap_or_default();
        let radix = c["radix"].as_str().unwrap_or("dec");
        let sign = c["sign"].as_str().unwrap_or("");
        let how = c["dress"].as_str().unwrap_or("plain");
        let body = match radix {
            "bin" => format!("0b{}", dress(&bits.iter().map(|b| (b'0' + b) as char).collect::<String>(), how)),
            "hex" => format!("0x{}", dress(&hex_of(&bits), how)),
            "lzhex" => format!("0{}", dress(&hex_of(&bits), how)),
            // a decimal numeral cannot start with 0 (that is the leading-zero hexadecimal notation)
            _ => dress(&decimal_of(&bits), if how == "zeros" { "plain" } else { how }),
        };
        let text = format!("{}{}", sign, body);
        let accept = c["accept"] == true;
        // the value, when it fits: magnitude as u128 (at most 128 bits here), negated for '-'
        let want: Option<i128> = if accept {
            let mag = bits.iter().fold(0u128, |a, b| (a << 1) | *b as u128);
            Some(if sign == "-" { (mag as i128).wrapping_neg() } else { mag as i128 })
        } else { None };
        if accept { accepted += 1; }
        let mut why: Vec<String> = vec![];
        let r = guarded(|| {
            let mut lex = Lex::new(Xstr::from(text.as_str()));
            let first = lex.next();
            let covered = lex.last_substr().to_string();
            (first, covered)
        });
        match r {
            Outcome::Panic(m) => why.push(format!("panic: {}", m)),
            Outcome::Done((first, covered)) => match (&first, want) {
                (Ok(Tok::Literal(Cell::Int(v))), Some(w)) => {
                    if *v != w { why.push(format!("reads as {}, the numeral denotes {}", v, w)); }
                    if covered != text { why.push(format!("the token covers {:?} of {:?}", covered, text)); }
                }
                (Ok(Tok::Literal(Cell::Int(v))), None) => why.push(format!("reads as {}, but the numeral denotes a value outside the 128-bit range: it must be rejected", v)),
                (Err(_), None) => {}
                (other, Some(w)) => why.push(format!("got {:?}, the numeral denotes {}", other, w)),
                (other, None) => why.push(format!("got {:?}; a numeral outside the range must be rejected", other)),
            },
        }
        // through the whole interpreter as well: the value on the stack, or an error - never a different number
        let mut xs = fresh();
        match guarded(|| xs.eval(&text)) {
            Outcome::Panic(m) => why.push(format!("eval panics: {}", m)),
            Outcome::Done(Ok(())) => {
                let got = xs.get_data(0).and_then(|c| c.to_xint().ok());
                if got != want || want.is_none() { why.push(format!("eval leaves {:?}, expected {:?}", got, want)); }
            }
            Outcome::Done(Err(_)) => { if want.is_some() { why.push("eval rejects a numeral inside the range".into()); } }
        }
        if !why.is_empty() {
            bad += 1;
            out.push_str(&json!({"text": text, "case": c, "why": why}).to_string());
            out.push('\n');
        }
    });
    std::fs::write(&args[1], out).unwrap();
    println!("{}", json!({"numerals": n, "accepted": accepted, "mismatches": bad}));
    0
}
