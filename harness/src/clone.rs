//! C03: histories from spec/mc/MC_C03.tla executed on up to three interpreter instances; after every event the
//! canonical dump (plus what the call returned and printed) of every live instance is recorded.
use crate::*;
use serde_json::{json, Value};

fn canvas(xs: &mut Xstate) -> Value {
    // the host object is rendered by value: its whole abstract state (size, colour, palette, pixels) through the hook,
    // and the pixels once more through the plugin's public accessor
    if xs.get_var_value("d2-context").is_err() {
        return Value::Null;
    }
    let full = xeh::d2_plugin::verif_canvas(xs);
    // what a user sees when the host object itself is printed (`.s`, print): must not tell the copies apart
    let repr = xs.get_var_value("d2-context").ok().map(|c| format!("{:?}", c));
    let mut buf = vec![];
    match xeh::d2_plugin::copy_rgba_data(xs, &mut buf) {
        Ok((w, h)) => json!({"w": w, "h": h, "px": fnv(&format!("{:?}", buf)), "state": full, "repr": repr}),
        Err(_) => json!("unreadable"),
    }
}

struct Inst {
    xs: Xstate,
    last: Value, // result + output of the last call applied to this instance (part of what it "produced")
}

fn observe(inst: &mut Inst) -> String {
    // rendering is itself code under test: a panic while dumping (e.g. a view left behind a truncated shared buffer)
    // is an observation like any other
    let last = inst.last.clone();
    let xs = &mut inst.xs;
    match guarded(|| {
        let d = dump_json(&xs.verif_dump());
        let c = canvas(xs);
        fnv(&json!({"dump": d, "canvas": c, "last": last}).to_string())
    }) {
        Outcome::Done(h) => h,
        Outcome::Panic(m) => format!("render-panic:{}", fnv(&m)),
    }
}

fn apply(inst: &mut Inst, call: &str) {
    let xs = &mut inst.xs;
    let r = guarded(|| {
        if call == "N" { xs.next() }
        else if call == "R" { xs.rnext() }
        else if call == "REC" { xs.set_recording_enabled(true); Ok(()) }
        else if call == "RUN" { xs.run() }
        else if let Some(src) = call.strip_prefix("C:") { xs.compile(src) }
        else { xs.eval(call) }
    });
    let out = xs.read_stdout().unwrap_or_default();
    inst.last = match r {
        Outcome::Panic(_) => json!({"res": "panic"}),
        Outcome::Done(r) => json!({"res": res_json(&r), "out": out}),
    };
}

fn boot(theme: &str) -> Inst {
    let mut xs = fresh();
    // histories are short; a runaway recursion (an unresolved `late` word calling itself) is cut off early
    xs.set_insn_limit(Some(20_000)).unwrap();
    if theme == "canvas" {
        xeh::d2_plugin::load(&mut xs).unwrap();
    }
    Inst { xs, last: Value::Null }
}

/// xv clone-record <tlc-output | --random seed n len> <trace> <side>
pub fn cmd_record(args: &[String]) -> i32 {
    let mut trace = String::new();
    let mut side = String::new();
    let mut runs = 0usize;
    let mut events = 0usize;
    let mut exec = |theme: &str, hist: &Vec<Value>, trace: &mut String, side: &mut String| {
        let mut insts: Vec<Option<Inst>> = vec![Some(boot(theme)), None, None];
        let dumps = |insts: &mut Vec<Option<Inst>>| -> Vec<String> { insts.iter_mut().map(|i| match i { Some(x) => observe(x), None => String::new() }).collect() };
        let d0 = dumps(&mut insts);
        trace.push_str(&json!({"run": runs, "k": "reset", "i": 1, "j": 0, "c": "", "dumps": d0}).to_string());
        trace.push('\n');
        let mut descr: Vec<String> = vec![];
        for ev in hist {
            let i = ev["i"].as_u64().unwrap_or(1) as usize;
            if ev["k"] == "clone" {
                let j = ev["j"].as_u64().unwrap_or(2) as usize;
                // every other snapshot is taken through the C API (c_api::xeh_snapshot), the rest by State::clone
                let via_capi = (i + j + descr.len()) % 2 == 0;
                let src = insts[i - 1].take().unwrap();
                let last = src.last.clone();
                let (orig, copy) = if via_capi {
                    unsafe {
                        let raw = Box::into_raw(Box::new(src.xs));
                        let snap = xeh::c_api::xeh_snapshot(raw);
                        (*Box::from_raw(raw), *Box::from_raw(snap))
                    }
                } else {
                    let c = src.xs.clone();
                    (src.xs, c)
                };
                insts[i - 1] = Some(Inst { xs: orig, last: last.clone() });
                insts[j - 1] = Some(Inst { xs: copy, last });
                descr.push(format!("clone {}->{}", i, j));
            } else {
                let call = ev["c"].as_str().unwrap_or("");
                apply(insts[i - 1].as_mut().unwrap(), call);
                descr.push(format!("{}: {}", i, call));
            }
            let d = dumps(&mut insts);
            trace.push_str(&json!({"run": runs, "k": ev["k"], "i": ev["i"], "j": ev["j"], "c": ev["c"], "dumps": d}).to_string());
            trace.push('\n');
            events += 1;
        }
        side.push_str(&json!({"run": runs, "theme": theme, "history": descr}).to_string());
        side.push('\n');
        runs += 1;
    };
    if args[0] == "--random" {
        let seed: u64 = args[1].parse().unwrap_or(1);
        let n: usize = args[2].parse().unwrap_or(100);
        let len: usize = args[3].parse().unwrap_or(12);
        let dict: Vec<String> = fresh().word_list().iter().map(|s| s.to_string()).collect();
        let mut g = gen::Gen::new(seed, dict);
        let mut rng = Rng::new(seed ^ 0xc10e);
        for _ in 0..n {
            let mut hist: Vec<Value> = vec![];
            let mut alive = vec![1usize];
            let mut pending: Option<String> = None;
            for _ in 0..len {
                if alive.len() < 3 && rng.chance(1, 4) {
                    let i = alive[rng.below(alive.len())];
                    let j = (1..=3).find(|x| !alive.contains(x)).unwrap();
                    hist.push(json!({"k": "clone", "i": i, "j": j, "c": ""}));
                    alive.push(j);
                } else {
                    let i = alive[rng.below(alive.len())];
                    // now and then apply the SAME source to two instances (determinism of re-running)
                    let c = match (&pending, rng.chance(1, 3)) {
                        (Some(p), true) => p.clone(),
                        _ => match rng.below(8) { 0 => "N".to_string(), 1 => "R".to_string(), 2 => format!("C:{}", g.program(4 + rng.below(10))), 3 => "REC".to_string(), _ => g.program(3 + rng.below(12)) },
                    };
                    pending = Some(c.clone());
                    hist.push(json!({"k": "call", "i": i, "j": 0, "c": c}));
                }
            }
            exec("random", &hist, &mut trace, &mut side);
        }
        std::fs::write(&args[4], &trace).unwrap();
        std::fs::write(&args[5], &side).unwrap();
    } else {
        for_each_replay_line(&args[0], |c| {
            let hist = c["h"].as_array().cloned().unwrap_or_default();
            exec(c["theme"].as_str().unwrap_or(""), &hist, &mut trace, &mut side);
        });
        std::fs::write(&args[1], &trace).unwrap();
        std::fs::write(&args[2], &side).unwrap();
    }
    println!("{}", json!({"runs": runs, "events": events}));
    0
}
