//! C07: records (field lists) from spec/mc/MC_C07.tla are packed with the construction words,
//! concatenated (>bitstr / emit in every split), parsed back with the read words.
use crate::*;
use serde_json::{json, Value};

fn jbits(v: &Value) -> Vec<u8> {
    v.as_array().map(|a| a.iter().map(|x| x.as_u64().unwrap_or(0) as u8).collect()).unwrap_or_default()
}
fn to_u128(bits: &[u8]) -> u128 {
    bits.iter().fold(0u128, |a, b| (a << 1) | (*b as u128))
}
fn to_i128(bits: &[u8]) -> i128 {
    let w = bits.len();
    let u = to_u128(bits);
    if w == 128 { u as i128 } else if bits[0] == 1 { (u | (u128::MAX << w)) as i128 } else { u as i128 }
}
fn bit_lit(bits: &[u8]) -> String {
    let mut s = String::from("|");
    for b in bits { s.push(if *b == 1 { 'x' } else { '.' }); }
    s.push('|');
    s
}

struct F {
    kind: String,
    w: usize,
    signed: bool,
    order: String,
    value: Vec<u8>,
}

fn field(v: &Value) -> F {
    F { kind: v["k"].as_str().unwrap_or("").into(), w: v["w"].as_u64().unwrap_or(0) as usize, signed: v["signed"] == 1,
        order: v["order"].as_str().unwrap_or("big").into(), value: jbits(&v["value"]) }
}

fn ival(f: &F) -> i128 {
    if f.signed { to_i128(&f.value) } else { to_u128(&f.value) as i128 }
}

fn fval(f: &F) -> f64 {
    if f.w == 32 { f32::from_bits(to_u128(&f.value) as u32) as f64 } else { f64::from_bits(to_u128(&f.value) as u64) }
}

fn pack_text(f: &F, alt: usize) -> String {
    match f.kind.as_str() {
        "flt" => {
            // values are exactly representable, so the literal is exact
            if alt % 2 == 0 {
                format!("{:?} f{}{}!", fval(f), f.w, if f.order == "big" { "be" } else { "le" })
            } else {
                format!("{} {:?} f{}!", f.order, fval(f), f.w)
            }
        }
        "int" => {
            let fixed = matches!(f.w, 8 | 16 | 32 | 64) && alt % 2 == 0;
            if fixed {
                let suffix = if f.order == "big" { "be" } else { "le" };
                format!("{} {}{}{}!", ival(f), if f.signed { "i" } else { "u" }, f.w, suffix)
            } else {
                format!("{} {} {} {}", f.order, ival(f), f.w, if f.signed { "int!" } else { "uint!" })
            }
        }
        "raw" => bit_lit(&f.value),
        "str" => "\"Az\"".to_string(),
        _ => "[ 1 255 ]".to_string(),
    }
}

fn parse_text(f: &F) -> String {
    match f.kind.as_str() {
        "flt" => format!("{} f{}", f.order, f.w),
        "int" => format!("{} {} {}", f.order, f.w, if f.signed { "int" } else { "uint" }),
        "raw" => format!("{} bits", f.w),
        _ => "2 bytes".to_string(),
    }
}

pub fn judge(case: &Value, salt: usize) -> Option<Value> {
    let fields: Vec<F> = case["fields"].as_array().map(|a| a.iter().map(field).collect()).unwrap_or_default();
    let packed = jbits(&case["packed"]);
    let mut why: Vec<String> = vec![];
    let parts: Vec<String> = fields.iter().enumerate().map(|(i, f)| pack_text(f, salt + i)).collect();
    let prog_pack = format!("[ {} ] >bitstr", parts.join(" "));
    let r = guarded(|| {
        let mut why: Vec<String> = vec![];
        let mut xs = fresh();
        // ---- pack + parse back
        let parse: Vec<String> = fields.iter().map(parse_text).collect();
        let src = format!("{} dup open-bitstr {} remain", prog_pack, parse.join(" "));
        match xs.eval(&src) {
            Err(e) => why.push(format!("`{}` failed: {}", src, e)),
            Ok(()) => {
                let st = visible_stack(&xs);
                if st.len() != fields.len() + 2 {
                    why.push(format!("`{}` left {} items, expected {}", src, st.len(), fields.len() + 2));
                } else {
                    let got: Option<Vec<u8>> = st[0].bitstr().ok().map(|b| b.bits().collect());
                    if got.as_deref() != Some(&packed[..]) {
                        why.push(format!("packed bits {:?} expected {:?}", got, packed));
                    }
                    for (i, f) in fields.iter().enumerate() {
                        let c = &st[i + 1];
                        let okv = match f.kind.as_str() {
                            "int" => c.to_xint().ok() == Some(ival(f)),
                            "flt" => c.to_real().ok().map(|r| r.to_bits()) == Some(fval(f).to_bits()),
                            _ => c.bitstr().ok().map(|b| b.bits().collect::<Vec<u8>>() == f.value).unwrap_or(false),
                        };
                        if !okv {
                            why.push(format!("field {} ({} {} bits {}) parsed back as {:?}, packed value {}", i + 1, f.kind, f.w, f.order, c, if f.kind == "int" { ival(f).to_string() } else { format!("{:?}", f.value) }));
                        }
                    }
                    if st[fields.len() + 1].to_xint().ok() != Some(0) {
                        why.push(format!("remain after parsing every field is {:?}", st[fields.len() + 1]));
                    }
                }
            }
        }
        // ---- every split of the field list across emit calls, output interception on
        let n = fields.len();
        for mask in 0..(1usize << (n - 1)) {
            let mut xs = fresh();
            let mut groups: Vec<Vec<String>> = vec![vec![]];
            for i in 0..n {
                groups.last_mut().unwrap().push(parts[i].clone());
                if i + 1 < n && (mask >> i) & 1 == 1 {
                    groups.push(vec![]);
                }
            }
            let src: String = groups.iter().map(|g| format!("[ {} ] >bitstr emit", g.join(" "))).collect::<Vec<_>>().join(" ");
            match xs.eval(&src) {
                Err(e) => why.push(format!("`{}` failed: {}", src, e)),
                Ok(()) => {
                    let out: Option<Vec<u8>> = xs.get_var_value("output").ok().and_then(|c| c.bitstr().ok().map(|b| b.bits().collect()));
                    if out.as_deref() != Some(&packed[..]) {
                        why.push(format!("`{}`: output {:?} expected {:?}", src, out, packed));
                    }
                    let len = xs.get_var_value("output-length").ok().and_then(|c| c.to_xint().ok());
                    if len != Some(packed.len() as i128) {
                        why.push(format!("`{}`: output-length {:?} expected {}", src, len, packed.len()));
                    }
                }
            }
        }
        // ---- the packed record read back byte by byte and rebuilt from what the read words returned (numbers that come
        // from binary input carry tags): the same bits again
        if packed.len() % 8 == 0 && packed.len() > 0 {
            let nb = packed.len() / 8;
            let reads: Vec<&str> = (0..nb).map(|i| if i % 3 == 2 { "1 bytes" } else { "u8" }).collect();
            let src = format!("{} open-bitstr [ {} ] >bitstr", prog_pack, reads.join(" "));
            let mut xs = fresh();
            match xs.eval(&src) {
                Err(e) => why.push(format!("`{}` failed: {}", src, e)),
                Ok(()) => {
                    let got: Option<Vec<u8>> = xs.get_data(0).and_then(|c| c.bitstr().ok().map(|b| b.bits().collect()));
                    if got.as_deref() != Some(&packed[..]) { why.push(format!("`{}`: rebuilt {:?}, expected {:?}", src, got, packed)); }
                }
            }
            let src = format!("{} open-bitstr [ [ {} ] {} ] >bitstr", prog_pack, reads[..nb / 2].join(" "), reads[nb / 2..].join(" "));
            let mut xs = fresh();
            match xs.eval(&src) {
                Err(e) => why.push(format!("`{}` failed: {}", src, e)),
                Ok(()) => {
                    let got: Option<Vec<u8>> = xs.get_data(0).and_then(|c| c.bitstr().ok().map(|b| b.bits().collect()));
                    if got.as_deref() != Some(&packed[..]) { why.push(format!("`{}`: rebuilt {:?}, expected {:?}", src, got, packed)); }
                }
            }
        }
        // ---- interception switched on again between emit calls (an idempotent request): nothing emitted so far is lost
        if n >= 2 {
            let mut xs = fresh();
            let mut ok = true;
            for (i, p) in parts.iter().enumerate() {
                if i > 0 { let _ = xs.intercept_output(true); }
                if xs.eval(&format!("{} emit", p)).is_err() { ok = false; break; }
            }
            if ok {
                let out: Option<Vec<u8>> = xs.get_var_value("output").ok().and_then(|c| c.bitstr().ok().map(|b| b.bits().collect()));
                let len = xs.get_var_value("output-length").ok().and_then(|c| c.to_xint().ok());
                if out.as_deref() != Some(&packed[..]) || len != Some(packed.len() as i128) {
                    why.push(format!("interception requested again between the emits of `{}`: output {:?} (output-length {:?}), expected {:?}", parts.join(" emit "), out, len, packed));
                }
            }
        }
        // ---- the record built once, cut into raw slices at the field boundaries and emitted piece by piece:
        // what is emitted are views that do not start at bit 0 of their buffer
        for mask in 0..(1usize << (n - 1)) {
            let mut xs = fresh();
            let mut widths: Vec<usize> = vec![0];
            for i in 0..n {
                *widths.last_mut().unwrap() += fields[i].w;
                if i + 1 < n && (mask >> i) & 1 == 1 {
                    widths.push(0);
                }
            }
            let cuts: String = widths.iter().map(|w| format!("{} bits emit", w)).collect::<Vec<_>>().join(" ");
            let src = format!("{} open-bitstr {} remain", prog_pack, cuts);
            match xs.eval(&src) {
                Err(e) => why.push(format!("`{}` failed: {}", src, e)),
                Ok(()) => {
                    let out: Option<Vec<u8>> = xs.get_var_value("output").ok().and_then(|c| c.bitstr().ok().map(|b| b.bits().collect()));
                    if out.as_deref() != Some(&packed[..]) {
                        why.push(format!("`{}`: output {:?} expected {:?}", src, out, packed));
                    }
                    let len = xs.get_var_value("output-length").ok().and_then(|c| c.to_xint().ok());
                    if len != Some(packed.len() as i128) {
                        why.push(format!("`{}`: output-length {:?} expected {}", src, len, packed.len()));
                    }
                    if xs.get_data(0).and_then(|c| c.to_xint().ok()) != Some(0) {
                        why.push(format!("`{}`: remain is not 0", src));
                    }
                }
            }
        }
        why
    });
    match r {
        Outcome::Panic(m) => why.push(format!("panic: {}", m)),
        Outcome::Done(w) => why.extend(w),
    }
    if why.is_empty() { None } else { Some(json!({"program": prog_pack, "why": why, "case": case})) }
}

/// xv pack-replay <tlc-output> <mismatches>
pub fn cmd_replay(args: &[String]) -> i32 {
    let mut n = 0usize;
    let mut bad = 0usize;
    let mut unaligned = 0usize;
    let mut out = String::new();
    for_each_replay_line(&args[0], |c| {
        n += 1;
        let mut off = 0usize;
        let mut any = false;
        for f in c["fields"].as_array().cloned().unwrap_or_default() {
            if off % 8 != 0 { any = true; }
            off += f["w"].as_u64().unwrap_or(0) as usize;
        }
        if any { unaligned += 1; }
        if let Some(m) = judge(&c, n) {
            bad += 1;
            if bad <= 100 {
                out.push_str(&m.to_string());
                out.push('\n');
            }
        }
    });
    std::fs::write(&args[1], out).unwrap();
    println!("{}", json!({"records": n, "with_unaligned_field": unaligned, "mismatches": bad}));
    0
}

fn pattern(v: u128, w: usize) -> Vec<u8> {
    (0..w).rev().map(|i| ((v >> i) & 1) as u8).collect()
}

/// xv pack-record <trace> <seed> <n> <maxfields>
pub fn cmd_record(args: &[String]) -> i32 {
    let seed: u64 = args[1].parse().unwrap_or(1);
    let n: usize = args[2].parse().unwrap_or(100);
    let maxf: usize = args[3].parse().unwrap_or(20);
    let mut rng = Rng::new(seed);
    let mut trace = String::new();
    let mut done = 0usize;
    for run in 0..n {
        let nf = 1 + rng.below(maxf);
        let mut fields: Vec<F> = vec![];
        for _ in 0..nf {
            match rng.below(8) {
                0 => {
                    let w = 1 + rng.below(12);
                    fields.push(F { kind: "raw".into(), w, signed: false, order: "big".into(), value: (0..w).map(|_| rng.below(2) as u8).collect() });
                }
                1 => fields.push(F { kind: "str".into(), w: 16, signed: false, order: "big".into(), value: vec![0,1,0,0,0,0,0,1, 0,1,1,1,1,0,1,0] }),
                2 => fields.push(F { kind: "bytes".into(), w: 16, signed: false, order: "big".into(), value: vec![0,0,0,0,0,0,0,1, 1,1,1,1,1,1,1,1] }),
                3 => {
                    // a dyadic rational with few mantissa bits: exact as binary32 and binary64, exact as a decimal literal
                    let v = (rng.below(1 << 20) as f64 - (1 << 19) as f64) / 64.0;
                    let w = if rng.chance(1, 2) { 32 } else { 64 };
                    let bits: u128 = if w == 32 { (v as f32).to_bits() as u128 } else { v.to_bits() as u128 };
                    fields.push(F { kind: "flt".into(), w, signed: false, order: if rng.chance(1, 2) { "big".into() } else { "little".into() }, value: pattern(bits, w) });
                }
                _ => {
                    let signed = rng.chance(1, 2);
                    let w = 1 + rng.below(if signed { 128 } else { 127 });
                    let raw: u128 = ((rng.next() as u128) << 64) | rng.next() as u128;
                    let low = if w == 128 { raw } else { raw & ((1u128 << w) - 1) };
                    fields.push(F { kind: "int".into(), w, signed, order: if rng.chance(1, 2) { "big".into() } else { "little".into() }, value: pattern(low, w) });
                }
            }
        }
        let parts: Vec<String> = fields.iter().enumerate().map(|(i, f)| pack_text(f, run + i)).collect();
        let parse: Vec<String> = fields.iter().map(parse_text).collect();
        // split into two emit calls at a random point as well
        let cut = rng.below(nf + 1);
        let emit_src = if cut == 0 || cut == nf {
            format!("[ {} ] >bitstr emit", parts.join(" "))
        } else {
            format!("[ {} ] >bitstr emit [ {} ] >bitstr emit", parts[..cut].join(" "), parts[cut..].join(" "))
        };
        // or the record built once and emitted as two raw slices cut at an arbitrary bit
        let total: usize = fields.iter().map(|f| f.w).sum();
        let emit_src = if rng.chance(1, 3) && total > 1 {
            let k = 1 + rng.below(total - 1);
            format!("[ {} ] >bitstr open-bitstr {} bits emit {} bits emit", parts.join(" "), k, total - k)
        } else {
            emit_src
        };
        let src = format!("[ {} ] >bitstr dup open-bitstr {} remain", parts.join(" "), parse.join(" "));
        let mut xs = fresh();
        let r = guarded(|| xs.eval(&src));
        if !matches!(r, Outcome::Done(Ok(()))) {
            // a failing pack/parse program is reported as an event that cannot satisfy the specification
            trace.push_str(&json!({"run": run, "src": src, "fields": [], "packed": [1], "parsed": [], "remain": -1, "output": [], "outlen": -1}).to_string());
            trace.push('\n');
            continue;
        }
        let st = visible_stack(&xs);
        if st.len() != nf + 2 { continue; }
        let packed: Vec<u8> = st[0].bitstr().map(|b| b.bits().collect()).unwrap_or_default();
        let parsed: Vec<Vec<u8>> = fields.iter().enumerate().map(|(i, f)| match f.kind.as_str() {
            "int" => st[i + 1].to_xint().map(|v| pattern(v as u128, f.w)).unwrap_or_default(),
            "flt" => st[i + 1].to_real().map(|r| if f.w == 32 { pattern((r as f32).to_bits() as u128, 32) } else { pattern(r.to_bits() as u128, 64) }).unwrap_or_default(),
            _ => st[i + 1].bitstr().map(|b| b.bits().collect()).unwrap_or_default(),
        }).collect();
        let remain = st[nf + 1].to_xint().unwrap_or(-1) as i64;
        let mut xe = fresh();
        let _ = guarded(|| xe.eval(&emit_src));
        let output: Vec<u8> = xe.get_var_value("output").ok().and_then(|c| c.bitstr().ok().map(|b| b.bits().collect())).unwrap_or_default();
        let outlen = xe.get_var_value("output-length").ok().and_then(|c| c.to_xint().ok()).unwrap_or(-1) as i64;
        let fj: Vec<Value> = fields.iter().map(|f| json!({"k": f.kind, "w": f.w, "signed": if f.signed {1} else {0}, "order": f.order, "value": f.value})).collect();
        trace.push_str(&json!({"run": run, "src": src, "fields": fj, "packed": packed, "parsed": parsed, "remain": remain, "output": output, "outlen": outlen}).to_string());
        trace.push('\n');
        done += 1;
    }
    std::fs::write(&args[0], trace).unwrap();
    println!("{}", json!({"records": done}));
    0
}
