//! C05: number <-> bits codecs.  Cases come from spec/mc/MC_C05.tla: width, byte order, the
//! value as an MSB-first bit pattern and the wire bits the specification prescribes.
use crate::*;
use serde_json::{json, Value};
use xeh::bitstr::{Bitstr, Byteorder, BIG, LITTLE};

fn jbits(v: &Value) -> Vec<u8> {
    v.as_array().map(|a| a.iter().map(|x| x.as_u64().unwrap_or(0) as u8).collect()).unwrap_or_default()
}

fn to_u128(bits: &[u8]) -> u128 {
    bits.iter().fold(0u128, |a, b| (a << 1) | (*b as u128))
}

fn to_i128(bits: &[u8]) -> i128 {
    let w = bits.len();
    let u = to_u128(bits);
    if w == 128 {
        u as i128
    } else if bits[0] == 1 {
        (u | (u128::MAX << w)) as i128
    } else {
        u as i128
    }
}

fn bit_lit(bits: &[u8]) -> String {
    let mut s = String::from("|");
    for b in bits {
        s.push(if *b == 1 { 'x' } else { '.' });
    }
    s.push('|');
    s
}

pub const OFFSETS: [usize; 24] = [0, 1, 2, 3, 4, 5, 6, 7, 8, 9, 10, 11, 12, 13, 14, 15, 16, 17, 23, 31, 33, 64, 69, 130];

pub fn judge(c: &Value, lang: bool) -> Option<Value> {
    let w = c["w"].as_u64().unwrap() as usize;
    let order: Byteorder = if c["order"] == "big" { BIG } else { LITTLE };
    let oname = c["order"].as_str().unwrap_or("");
    let value = jbits(&c["value"]);
    let wire = jbits(&c["wire"]);
    let mut why: Vec<String> = vec![];
    let vu = to_u128(&value);
    let vi = to_i128(&value);
    let r = guarded(|| {
        let mut why: Vec<String> = vec![];
        if c["kind"] == "int" {
            let packed: Vec<u8> = Bitstr::from_int(vi, w, order).bits().collect();
            if packed != wire {
                why.push(format!("from_int({}, {}, {}) = {:?}, expected {:?}", vi, w, oname, packed, wire));
            }
            // pack of a value with extra high bits must reduce it to the width
            if w < 128 {
                let noisy = vi ^ ((0x5a5a_5a5a_5a5a_5a5a_5a5a_5a5a_5a5a_5a5au128 << w) as i128);
                let packed2: Vec<u8> = Bitstr::from_int(noisy, w, order).bits().collect();
                if packed2 != wire {
                    why.push(format!("from_int does not reduce the value to {} bits", w));
                }
            }
        } else {
            let packed: Vec<u8> = if w == 32 {
                Bitstr::from_f32(f32::from_bits(vu as u32), order).bits().collect()
            } else {
                Bitstr::from_f64(f64::from_bits(vu as u64), order).bits().collect()
            };
            if packed != wire {
                why.push(format!("from_f{}({:#x}, {}) = {:?}, expected {:?}", w, vu, oname, packed, wire));
            }
        }
        // every alignment inside a byte, and fields that start beyond the first bytes of their backing buffer
        for offset in OFFSETS.iter().copied() {
            for fill in 0..2u8 {
                let mut buf: Vec<u8> = vec![fill; offset];
                buf.extend_from_slice(&wire);
                let pad = (8 - (buf.len() % 8)) % 8 + 8;
                buf.extend(std::iter::repeat(fill).take(pad));
                let whole = bitstr_from_bits(&buf);
                let field = whole.substr(whole.start() + offset, whole.start() + offset + w).unwrap();
                if c["kind"] == "int" {
                    let u = field.to_uint(order);
                    let i = field.to_int(order);
                    if u != vu {
                        why.push(format!("to_uint({}) at bit offset {} (fill {}) = {:#x}, expected {:#x}", oname, offset, fill, u, vu));
                    }
                    if i != vi {
                        why.push(format!("to_int({}) at bit offset {} (fill {}) = {}, expected {}", oname, offset, fill, i, vi));
                    }
                } else if w == 32 {
                    let f = field.to_f32(order).to_bits() as u128;
                    if f != vu {
                        why.push(format!("to_f32({}) at bit offset {} = {:#x}, expected {:#x}", oname, offset, f, vu));
                    }
                } else {
                    let f = field.to_f64(order).to_bits() as u128;
                    if f != vu {
                        why.push(format!("to_f64({}) at bit offset {} = {:#x}, expected {:#x}", oname, offset, f, vu));
                    }
                }
                if why.len() > 3 {
                    return why;
                }
                // the language words, at a few alignments
                if lang && fill == 1 && (offset == 0 || offset == 3 || offset == 7 || offset == 13 || offset == 69) {
                    let mut xs = fresh();
                    if c["kind"] == "int" {
                        // pack
                        let src = format!("{} {} {} int!", oname, vi, w);
                        match xs.eval(&src) {
                            Ok(()) => {
                                let got = xs.get_data(0).and_then(|c| c.bitstr().ok().map(|b| b.bits().collect::<Vec<u8>>()));
                                if got.as_deref() != Some(&wire[..]) {
                                    why.push(format!("`{}` packs {:?}, expected {:?}", src, got, wire));
                                }
                            }
                            Err(e) => why.push(format!("`{}` failed: {}", src, e)),
                        }
                        // the words with the width and the byte order in their name
                        if matches!(w, 8 | 16 | 32 | 64) {
                            let sfx = if oname == "big" { "be" } else { "le" };
                            for (pfx, val) in [("i", vi), ("u", vu as i128)] {
                                // the opposite byte-order flag is set first: these words must not look at it
                                let src = format!("{} {} {}{}{}!", if oname == "big" { "little" } else { "big" }, val, pfx, w, sfx);
                                let mut xs = fresh();
                                match xs.eval(&src) {
                                    Ok(()) => {
                                        let got = xs.get_data(0).and_then(|c| c.bitstr().ok().map(|b| b.bits().collect::<Vec<u8>>()));
                                        if got.as_deref() != Some(&wire[..]) { why.push(format!("`{}` packs {:?}, expected {:?}", src, got, wire)); }
                                    }
                                    Err(e) => why.push(format!("`{}` failed: {}", src, e)),
                                }
                                let mut xs = fresh();
                                let src = format!("{} {} open-bitstr {} bits drop {}{}{}", if oname == "big" { "little" } else { "big" }, bit_lit(&buf), offset, pfx, w, sfx);
                                match xs.eval(&src) {
                                    Ok(()) => {
                                        let got = xs.get_data(0).and_then(|c| c.to_xint().ok());
                                        if got != Some(val) { why.push(format!("`{}{}{}` at bit offset {} reads {:?}, expected {}", pfx, w, sfx, offset, got, val)); }
                                    }
                                    Err(e) => why.push(format!("`{}` failed: {}", src, e)),
                                }
                            }
                        }
                        // parse, signed (any width) and unsigned (up to 127 bits: a cell is an i128)
                        let mut xs = fresh();
                        let src = format!("{} {} open-bitstr {} bits drop {} int remain", oname, bit_lit(&buf), offset, w);
                        match xs.eval(&src) {
                            Ok(()) => {
                                let got = xs.get_data(1).and_then(|c| c.to_xint().ok());
                                if got != Some(vi) {
                                    why.push(format!("`{} int` at bit offset {} reads {:?}, expected {}", w, offset, got, vi));
                                }
                                let rem = xs.get_data(0).and_then(|c| c.to_xint().ok());
                                if rem != Some(pad as i128) {
                                    why.push(format!("`{} int` at bit offset {} leaves remain {:?}, expected {}", w, offset, rem, pad));
                                }
                            }
                            Err(e) => why.push(format!("`{}` failed: {}", src, e)),
                        }
                        if w <= 127 {
                            let mut xs = fresh();
                            let src = format!("{} {} open-bitstr {} bits drop {} uint", oname, bit_lit(&buf), offset, w);
                            match xs.eval(&src) {
                                Ok(()) => {
                                    let got = xs.get_data(0).and_then(|c| c.to_xint().ok());
                                    if got != Some(vu as i128) {
                                        why.push(format!("`{} uint` at bit offset {} reads {:?}, expected {}", w, offset, got, vu));
                                    }
                                }
                                Err(e) => why.push(format!("`{}` failed: {}", src, e)),
                            }
                        }
                    } else if w == 64 {
                        let f = f64::from_bits(vu as u64);
                        let mut xs = fresh();
                        let src = format!("{} {} open-bitstr {} bits drop f64", oname, bit_lit(&buf), offset);
                        match xs.eval(&src) {
                            Ok(()) => {
                                let got = xs.get_data(0).and_then(|c| c.to_real().ok());
                                let okv = match got { Some(g) => g.to_bits() == f.to_bits() || (g.is_nan() && f.is_nan() && g.is_sign_negative() == f.is_sign_negative()), None => false };
                                if !okv {
                                    why.push(format!("`f64` at bit offset {} reads {:?}, expected {:?}", offset, got, f));
                                }
                            }
                            Err(e) => why.push(format!("`{}` failed: {}", src, e)),
                        }
                    }
                }
            }
        }
        why
    });
    match r {
        Outcome::Panic(m) => why.push(format!("panic: {}", m)),
        Outcome::Done(w2) => why.extend(w2),
    }
    if why.is_empty() { None } else { Some(json!({"case": c, "why": why})) }
}

/// xv codec-replay <tlc-output> <mismatches> [lang-stride]
pub fn cmd_replay(args: &[String]) -> i32 {
    let stride: usize = args.get(2).and_then(|s| s.parse().ok()).unwrap_or(1);
    let mut n = 0usize;
    let mut bad = 0usize;
    let mut out = String::new();
    for_each_replay_line(&args[0], |c| {
        n += 1;
        if let Some(m) = judge(&c, n % stride == 0) {
            bad += 1;
            if bad <= 100 {
                out.push_str(&m.to_string());
                out.push('\n');
            }
        }
    });
    std::fs::write(&args[1], out).unwrap();
    println!("{}", json!({"cases": n, "mismatches": bad, "placements": n * OFFSETS.len() * 2}));
    0
}

fn pattern(v: u128, w: usize) -> Vec<u8> {
    (0..w).rev().map(|i| ((v >> i) & 1) as u8).collect()
}

/// xv codec-record <trace> <seed> <n>: random 128-bit values, random widths, orders and offsets
pub fn cmd_record(args: &[String]) -> i32 {
    let seed: u64 = args[1].parse().unwrap_or(1);
    let n: usize = args[2].parse().unwrap_or(1000);
    let mut rng = Rng::new(seed);
    let mut trace = String::new();
    for i in 0..n {
        let w = 1 + rng.below(128);
        let order = if rng.chance(1, 2) { BIG } else { LITTLE };
        let raw: u128 = ((rng.next() as u128) << 64) | rng.next() as u128;
        let raw = match rng.below(6) { 0 => raw >> rng.below(128), 1 => !(raw >> rng.below(128)), _ => raw };
        let low = if w == 128 { raw } else { raw & ((1u128 << w) - 1) };
        let wire_bs = Bitstr::from_int(raw as i128, w, order);
        let wire: Vec<u8> = wire_bs.bits().collect();
        let off = if rng.chance(1, 2) { rng.below(8) } else { rng.below(200) };
        let fill = rng.below(2) as u8;
        let mut buf: Vec<u8> = vec![fill; off];
        buf.extend_from_slice(&wire);
        buf.extend(std::iter::repeat(fill).take(9));
        let whole = bitstr_from_bits(&buf);
        let field = whole.substr(whole.start() + off, whole.start() + off + w).unwrap();
        let signed = rng.chance(1, 2);
        let decoded = if signed { pattern(field.to_int(order) as u128, w) } else { pattern(field.to_uint(order), w) };
        trace.push_str(&json!({"run": i, "w": w, "order": if order == BIG {"big"} else {"little"}, "off": off, "signed": signed,
                               "value": pattern(low, w), "wire": wire, "decoded": decoded}).to_string());
        trace.push('\n');
    }
    std::fs::write(&args[0], trace).unwrap();
    println!("{}", json!({"events": n}));
    0
}
