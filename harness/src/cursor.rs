//! C06: paths of parsing words from spec/mc/MC_C06.tla replayed through eval, one word per call,
//! with offset / remain / input / data stack observed after every word.
use crate::*;
use serde_json::{json, Value};

fn jbits(v: &Value) -> Vec<u8> {
    v.as_array().map(|a| a.iter().map(|x| x.as_u64().unwrap_or(0) as u8).collect()).unwrap_or_default()
}

fn bit_lit(bits: &[u8]) -> String {
    let mut s = String::from("|");
    for b in bits {
        s.push(if *b == 1 { 'x' } else { '.' });
    }
    s.push('|');
    s
}

const HUGES: [&str; 6] = [
    "9223372036854775807", "9223372036854775808", "18446744073709551615", "18446744073709551616",
    "170141183460469231731687303715884105727", "18446744073709551608",
];

fn word_src(w: &Value, huge: &str) -> String {
    let name = w["w"].as_str().unwrap_or("");
    match w["k"].as_str().unwrap_or("") {
        "lit" => format!("{} open-bitstr", bit_lit(&jbits(&w["bits"]))),
        "num" => {
            let n = w["n"].as_i64().unwrap_or(0);
            if n < 0 { format!("{} {}", huge, name) } else { format!("{} {}", n, name) }
        }
        "pat" => format!("{} {}", bit_lit(&jbits(&w["bits"])), name),
        _ => name.to_string(),
    }
}

fn exp_cell_matches(exp: &Value, got: &Cell) -> bool {
    match exp["ty"].as_str().unwrap_or("") {
        "int" => got.to_xint().ok() == exp["i"].as_i64().map(|x| x as i128),
        "bits" => got.bitstr().map(|b| b.bits().collect::<Vec<u8>>() == jbits(&exp["b"])).unwrap_or(false),
        "nil" => got.value() == &Cell::Nil,
        "cstr" => {
            let bits = jbits(&exp["b"]);
            let mut s = String::new();
            for g in bits.chunks(8) {
                let x = g.iter().fold(0u32, |a, b| (a << 1) | (*b as u32));
                if x == 0 { break; }
                s.push(char::from_u32(x).unwrap());
            }
            got.str().map(|t| t == s).unwrap_or(false)
        }
        _ => false,
    }
}

pub fn judge(case: &Value, salt: usize) -> Option<Value> {
    let path = case["path"].as_array().cloned().unwrap_or_default();
    let mut xs = fresh();
    let mut srcs = vec![];
    for (k, step) in path.iter().enumerate() {
        let huge = HUGES[(salt + k) % HUGES.len()];
        let src = word_src(&step["word"], huge);
        srcs.push(src.clone());
        let exp = &step["obs"];
        let r = guarded(|| xs.eval(&src));
        let mut why: Vec<String> = vec![];
        match r {
            Outcome::Panic(m) => why.push(format!("panic: {}", m)),
            Outcome::Done(r) => {
                let cls = match &r { Ok(()) => "none", Err(e) => err_class(e) };
                let ecls = exp["err"].as_str().unwrap_or("");
                if ecls == "OutOfModel" {
                    return None;
                }
                let class_ok = if ecls == "AnyErr" { cls != "none" } else { cls == ecls };
                if !class_ok {
                    why.push(format!("result {} expected {}", cls, ecls));
                }
                let off = xs.get_var_value("offset").ok().and_then(|c| c.to_xint().ok()).unwrap_or(-1);
                if Some(off as i64) != exp["off"].as_i64() {
                    why.push(format!("offset {} expected {}", off, exp["off"]));
                }
                match xs.get_var_value("input").ok().and_then(|c| c.bitstr().ok().cloned()) {
                    Some(inp) => {
                        if inp.bits().collect::<Vec<u8>>() != jbits(&exp["inp"]) {
                            why.push("current input differs".into());
                        }
                        let remain = (inp.end() as i128).max(off) - off;
                        if Some(remain as i64) != exp["remain"].as_i64() {
                            why.push(format!("end - offset = {} expected remain {}", remain, exp["remain"]));
                        }
                    }
                    None => why.push("input variable is not a bit-string".into()),
                }
                let stack = visible_stack(&xs);
                let eds = exp["ds"].as_array().cloned().unwrap_or_default();
                if stack.len() != eds.len() || !stack.iter().zip(eds.iter()).all(|(g, e)| exp_cell_matches(e, g)) {
                    why.push(format!("data stack {} expected {}", stack_json(&xs), exp["ds"]));
                }
            }
        }
        xs.read_stdout();
        if !why.is_empty() {
            return Some(json!({"words": srcs, "failed_at": k, "why": why, "expected": exp}));
        }
    }
    None
}

/// xv cursor-replay <tlc-output> <mismatches>
pub fn cmd_replay(args: &[String]) -> i32 {
    let mut n = 0usize;
    let mut bad = 0usize;
    let mut out = String::new();
    let mut steps = 0usize;
    for_each_replay_line(&args[0], |c| {
        n += 1;
        steps += c["path"].as_array().map(|a| a.len()).unwrap_or(0);
        if let Some(m) = judge(&c, n) {
            bad += 1;
            if bad <= 300 {
                out.push_str(&m.to_string());
                out.push('\n');
            }
        }
    });
    std::fs::write(&args[1], out).unwrap();
    println!("{}", json!({"paths": n, "steps": steps, "mismatches": bad}));
    0
}

fn obs_json(xs: &Xstate, r: &Result<(), Xerr>) -> Value {
    let off = xs.get_var_value("offset").ok().and_then(|c| c.to_xint().ok()).unwrap_or(-1);
    let inp = xs.get_var_value("input").ok().and_then(|c| c.bitstr().ok().cloned());
    let (inpbits, remain) = match &inp {
        Some(b) => (bits_json(b), ((b.end() as i128).max(off) - off) as i64),
        None => (json!([]), -1),
    };
    let ds: Vec<Value> = visible_stack(xs).iter().map(|c| match c.value() {
        Cell::Int(i) => json!({"ty": "int", "i": *i as i64}),
        Cell::Bitstr(b) => json!({"ty": "bits", "b": bits_json(b)}),
        Cell::Nil => json!({"ty": "nil"}),
        Cell::Str(s) => {
            // render a cstr the way the specification does: its bytes (without the NUL) as bits
            let mut bits: Vec<u8> = vec![];
            for ch in s.chars() {
                let x = ch as u32;
                for i in (0..8).rev() { bits.push(((x >> i) & 1) as u8); }
            }
            json!({"ty": "cstr", "b": bits})
        }
        other => json!({"ty": "other", "s": format!("{:?}", other)}),
    }).collect();
    json!({"err": match r { Ok(()) => "none", Err(e) => err_class(e) }, "off": off, "remain": remain, "inp": inpbits, "ds": ds})
}

/// xv cursor-record <trace> <seed> <runs> <len>
pub fn cmd_record(args: &[String]) -> i32 {
    let seed: u64 = args[1].parse().unwrap_or(1);
    let runs: usize = args[2].parse().unwrap_or(100);
    let len: usize = args[3].parse().unwrap_or(30);
    let mut rng = Rng::new(seed);
    let mut trace = String::new();
    let mut events = 0usize;
    let plain = ["open-bitstr", "close-bitstr", "drop", "u8", "i8", "u16", "remain", "offset", "nulbytestr", "big", "little"];
    let nums = ["bits", "bits", "bytes", "uint", "int", "seek", "seek", "float"];
    for run in 0..runs {
        let mut xs = fresh();
        trace.push_str(&json!({"run": run, "w": {"w": "reset", "k": "plain", "n": 0, "bits": []}, "obs": {}}).to_string());
        trace.push('\n');
        for _ in 0..len {
            let w: Value = match rng.below(10) {
                0 | 1 => {
                    let n = rng.below(49);
                    let bits: Vec<u8> = (0..n).map(|_| if rng.chance(1, 3) { 1 } else { 0 }).collect();
                    json!({"w": "openlit", "k": "lit", "n": 0, "bits": bits})
                }
                2 | 3 => json!({"w": plain[rng.below(plain.len())], "k": "plain", "n": 0, "bits": []}),
                4 => {
                    let n = rng.below(10);
                    let bits: Vec<u8> = if rng.chance(1, 2) { vec![0; n] } else { (0..n).map(|_| rng.below(2) as u8).collect() };
                    json!({"w": if rng.chance(1, 2) { "magic" } else { "find" }, "k": "pat", "n": 0, "bits": if rng.chance(1, 3) { vec![0u8; 8] } else { bits }})
                }
                _ => {
                    let name = nums[rng.below(nums.len())];
                    // integer widths stay below 31 bits: the specification computes values with TLC's 32-bit integers
                    let n: i64 = if rng.chance(1, 12) { -1 } else { rng.below(if name == "bytes" { 5 } else if name == "uint" || name == "int" { 31 } else { 40 }) as i64 };
                    json!({"w": name, "k": "num", "n": n, "bits": []})
                }
            };
            let src = word_src(&w, HUGES[rng.below(HUGES.len())]);
            let r = guarded(|| xs.eval(&src));
            xs.read_stdout();
            match r {
                Outcome::Panic(_) => break,
                Outcome::Done(r) => {
                    let o = obs_json(&xs, &r);
                    // cstr results and float reads of 32/64 bits are outside the model: end the run there
                    if w["w"] == "float" && (w["n"] == 32 || w["n"] == 64) && r.is_ok() {
                        break;
                    }
                    trace.push_str(&json!({"run": run, "w": w, "src": src, "obs": o}).to_string());
                    trace.push('\n');
                    events += 1;
                }
            }
        }
    }
    std::fs::write(&args[0], trace).unwrap();
    println!("{}", json!({"runs": runs, "events": events}));
    0
}
