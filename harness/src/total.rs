//! C08: no source text, input or API call sequence can crash the interpreter.
//! Every call is wrapped in catch_unwind (a panic is data); the source about to be evaluated is appended to a
//! progress log first, so that an abort of the whole process (stack overflow, allocation failure) is attributable.
use crate::*;
use serde_json::{json, Value};
use std::io::Write;

const EXCLUDED: &[&str] = &["exec-piped", "random", "random-bits"];
const ALLOC_SIZED: &[&str] = &["int!", "uint!", "float!", "d2-resize"];

fn modest(word: &str, args: &[String]) -> bool {
    if !ALLOC_SIZED.contains(&word) {
        return true;
    }
    // requested allocation sizes are modest (the property's own precondition): widths / sizes up to 2^16
    args.iter().all(|a| a.parse::<i128>().map(|v| v <= 65536).unwrap_or(true))
}

struct Runner {
    trace: String,
    log: std::fs::File,
    calls: usize,
    panics: usize,
    errs: usize,
}

impl Runner {
    fn new(log_path: &str) -> Runner {
        Runner { trace: String::new(), log: std::fs::File::create(log_path).unwrap(), calls: 0, panics: 0, errs: 0 }
    }
    fn note(&mut self, src: &str) {
        let _ = writeln!(self.log, "{}", src.replace('\n', "\\n"));
    }
    fn eval(&mut self, src: &str, rec: bool) {
        self.note(src);
        let mut xs = fresh();
        xs.set_insn_limit(Some(20_000)).unwrap();
        xs.set_stack_limit(Some(2_000)).unwrap();
        xs.set_recording_enabled(rec);
        let r = guarded(|| {
            let r = xs.eval(src);
            // error formatting is part of the API surface
            let _ = xs.pretty_error();
            let n = xs.data_depth();
            for i in 0..n.min(4) {
                if let Some(c) = xs.get_data(i).cloned() {
                    let _ = xs.format_cell(&c);
                    let _ = xs.format_cell_safe(&c);
                }
            }
            if let Err(e) = &r {
                let _ = format!("{}", e);
                let _ = format!("{:?}", e);
            }
            r
        });
        let out = match r {
            Outcome::Panic(m) => { self.panics += 1; json!({"src": src, "rec": rec, "out": "panic", "msg": m}) }
            Outcome::Done(Ok(())) => json!({"src": src, "rec": rec, "out": "ok"}),
            Outcome::Done(Err(_)) => { self.errs += 1; json!({"src": src, "rec": rec, "out": "err"}) }
        };
        self.calls += 1;
        // only panics and a thin sample of the rest are written to the trace TLC validates (every call is counted)
        if out["out"] == "panic" || self.calls % 50 == 0 {
            self.trace.push_str(&out.to_string());
            self.trace.push('\n');
        }
    }
}

fn dictionary() -> Vec<String> {
    let mut xs = fresh();
    let _ = xeh::d2_plugin::load(&mut xs);
    let mut v: Vec<String> = xs.word_list().iter().map(|s| s.to_string()).filter(|w| !EXCLUDED.contains(&w.as_str())).collect();
    v.sort();
    v.dedup();
    v
}

/// xv total-matrix <tlc-output> <trace> <progress-log>
pub fn cmd_matrix(args: &[String]) -> i32 {
    let scratch = std::path::Path::new(&args[2]).parent().unwrap().join("scratch");
    let _ = std::fs::create_dir_all(&scratch);
    let _ = std::env::set_current_dir(&scratch);
    let mut r = Runner::new(&args[2]);
    let mut tabulated = std::collections::HashSet::new();
    let mut pools: Vec<Vec<String>> = vec![vec![], vec![], vec![], vec![]];
    let mut rows = 0usize;
    for_each_replay_line(&args[0], |c| {
        let w = c["w"].as_str().unwrap_or("").to_string();
        // the specification names the 76-byte non-ASCII string symbolically (TLA+ sources stay ASCII)
        let long = format!("\"{}\"", "é".repeat(38));
        let a: Vec<String> = c["args"].as_array().map(|x| x.iter().map(|y| y.as_str().unwrap_or("").replace("@NONASCII76@", &long)).collect()).unwrap_or_default();
        tabulated.insert(w.clone());
        if a.len() <= 3 {
            for x in &a { if !pools[a.len()].contains(x) { pools[a.len()].push(x.clone()); } }
        }
        rows += 1;
        if !modest(&w, &a) { return; }
        let src = format!("{} {}", a.join(" "), w);
        r.eval(&src, false);
        r.eval(&src, true);
        // far out in the text: error locations with a very large column / line number must still be formatted
        if rows % 61 == 0 {
            r.eval(&format!("{}{}", " ".repeat(70_000), src), false);
            r.eval(&format!("{}{} \\ {}", "\n".repeat(70_000), src, "c".repeat(70_000)), false);
        }
    });
    // words outside the table: arities 0..3 with the same pools
    let mut extra = 0usize;
    for w in dictionary() {
        if tabulated.contains(&w) { continue; }
        r.eval(&w, false);
        r.eval(&w, true);
        for a1 in pools[1].clone() {
            if !modest(&w, &[a1.clone()]) { continue; }
            r.eval(&format!("{} {}", a1, w), false);
            extra += 1;
            // immediate words also meet every follower (comment after `let`, literal after `:`)
            r.eval(&format!("{} {}", w, a1), false);
        }
        for a1 in pools[2].clone() { for a2 in pools[2].clone() {
            if !modest(&w, &[a1.clone(), a2.clone()]) { continue; }
            r.eval(&format!("{} {} {}", a1, a2, w), true);
            extra += 1;
        } }
        for a1 in pools[3].clone() { for a2 in pools[3].clone() { for a3 in pools[3].clone() {
            if !modest(&w, &[a1.clone(), a2.clone(), a3.clone()]) { continue; }
            r.eval(&format!("{} {} {} {}", a1, a2, a3, w), false);
            extra += 1;
        } } }
    }
    std::fs::write(&args[1], &r.trace).unwrap();
    println!("{}", json!({"rows": rows, "extra_rows": extra, "calls": r.calls, "panics": r.panics, "errors": r.errs}));
    0
}

const FRAGMENTS: &[&str] = &["\\", "\\(", "\\)", "\"", "\"abc", "|", "|zz|", "|1", "é", "\u{201C}x", "0x", "0b", "-", "1e5", "1.2.3", "99999999999999999999999999999999999999999",
                             "#(", "#)", "~)", "[", "]", "{", "}", "^{", "^}", ":", ";", "if", "else", "then", "do", "loop", "begin", "until", "while", "repeat", "break",
                             "case", "of", "endof", "endcase", "local", "var", "!", "let", "&", "^", "late", "immediate", "const", "enum", "endenum", "=", "include", "require",
                             "defined", "see", "foreach", "<name>", "\\ c", "1", "\"s\"", "|ff|", "nil", "x"];

const CONSTRUCTS: &[&str] = &[
    "enum T 170141183460469231731687303715884105727 = A : B endenum",
    "enum T -170141183460469231731687303715884105728 = A : B endenum A B",
    "enum T : A : B endenum A B T",
    "enum T 1.5 = A endenum", "enum T = A endenum", "enum T : endenum", "enum : A endenum", "enum T 1 = : A endenum",
    "enum T : A enum U : B endenum endenum",
    "[ 1 2 ] let [ a & ]", "5 let [", "{ } let { 1", "[ 1 ] let [ ^ ]", "1 let ^ 5 x", "[ 1 2 3 ] let [ a & b & c ]", "[ ] let [ & & ]",
    "{ 1 2 } let { 2 x { } }", "[ [ ] ] let [ [ a ] ]", "nil let [ ]", "1 let { }", "[ 1 ] let [ 170141183460469231731687303715884105727 ]",
    "#( 1 const #)", "#( const x #)", "late", ": f late ;", "late f f", "late f : f f ; f",
    ": f immediate ; f", ": f immediate f ; ", ": f : g immediate ; ; f g", "immediate", ": f 1 0 / immediate ; f",
    "1 var", "var 5", "! 5", "1 ! nil", "local", ": f local ;", ": f 1 local 5 ;",
    "#( #( #( 1 #) #) #)", "#( ~) 1", "#( \"#(\" ~) 1", "#( \"~)\" ~)", "#( \"\\\\\" ~)", "#( 1 2 3 ~)", "#( [ ] ~)", "#( nil ~) #)",
    "include 5", "require nil", "include \"/nonexistent/file.xeh\"", "defined", "defined 5", "see", "see 5", "see dup",
];

/// xv total-pairs <trace> <progress-log> <stride>: all token sequences of length <= 2 over dictionary + structural tokens + fragments
pub fn cmd_pairs(args: &[String]) -> i32 {
    let scratch = std::path::Path::new(&args[1]).parent().unwrap().join("scratch");
    let _ = std::fs::create_dir_all(&scratch);
    let _ = std::env::set_current_dir(&scratch);
    let stride: usize = args.get(2).and_then(|s| s.parse().ok()).unwrap_or(1);
    let mut r = Runner::new(&args[1]);
    let mut toks: Vec<String> = dictionary();
    for f in FRAGMENTS { if !toks.contains(&f.to_string()) { toks.push(f.to_string()); } }
    let mut k = 0usize;
    // multi-token constructs with boundary values in every slot (enum counters, let patterns, definitions)
    for c in CONSTRUCTS {
        r.eval(c, false);
        r.eval(c, true);
    }
    for f in FRAGMENTS {
        r.eval(&format!("{}{}", " ".repeat(70_000), f), false);
        r.eval(&format!("1 {}{} 2", "\t".repeat(66_000), f), true);
    }
    for a in &toks {
        r.eval(a, false);
        for b in &toks {
            k += 1;
            if k % stride != 0 { continue; }
            r.eval(&format!("{} {}", a, b), k % 2 == 0);
        }
    }
    std::fs::write(&args[0], &r.trace).unwrap();
    println!("{}", json!({"tokens": toks.len(), "calls": r.calls, "panics": r.panics, "errors": r.errs}));
    0
}

/// xv total-api <trace> <progress-log> <seed> <n>: seeded API call sequences on one interpreter
pub fn cmd_api(args: &[String]) -> i32 {
    let scratch = std::path::Path::new(&args[1]).parent().unwrap().join("scratch");
    let _ = std::fs::create_dir_all(&scratch);
    let _ = std::env::set_current_dir(&scratch);
    let seed: u64 = args[2].parse().unwrap_or(1);
    let n: usize = args[3].parse().unwrap_or(200);
    let mut r = Runner::new(&args[1]);
    let dict = dictionary();
    let mut g = gen::Gen::new(seed, dict.clone());
    let mut rng = Rng::new(seed ^ 0xa91);
    for run in 0..n {
        let mut xs = fresh();
        xs.set_insn_limit(Some(5_000)).unwrap();
        xs.set_stack_limit(Some(500)).unwrap();
        let mut snapshot: Option<Xstate> = None;
        for _ in 0..(4 + rng.below(12)) {
            let mut src = g.program(3 + rng.below(14));
            if rng.chance(1, 4) {
                // corrupt: drop or insert a token
                let mut t: Vec<&str> = src.split(' ').collect();
                let p = rng.below(t.len());
                if rng.chance(1, 2) { t.remove(p); } else { t.insert(p, FRAGMENTS[rng.below(FRAGMENTS.len())]); }
                src = t.join(" ");
            }
            let op = rng.below(12);
            let name = ["eval", "compile", "run", "next", "next", "rnext", "rnext", "pretty", "format", "clone", "restore", "setlimit"][op];
            r.note(&format!("#{} {} {}", run, name, src));
            let res = guarded(|| -> Result<(), Xerr> {
                match op {
                    0 => xs.eval(&src),
                    1 => xs.compile(&src),
                    2 => xs.run(),
                    3 | 4 => xs.next(),
                    5 | 6 => { xs.set_recording_enabled(true); xs.rnext() }
                    7 => { let _ = xs.pretty_error(); let _ = xs.last_err_location().map(|l| format!("{:?}", l)); Ok(()) }
                    8 => { for i in 0..xs.data_depth().min(3) { if let Some(c) = xs.get_data(i).cloned() { xs.format_cell(&c)?; xs.format_cell_safe(&c)?; } } Ok(()) }
                    9 => { snapshot = Some(xs.clone()); Ok(()) }
                    10 => { if let Some(s) = &snapshot { xs = s.clone(); } Ok(()) }
                    _ => { xs.set_insn_limit(Some(rng.below(3000)))?; xs.set_stack_limit(Some(rng.below(300))) }
                }
            });
            let out = match res { Outcome::Panic(m) => { r.panics += 1; json!({"src": format!("{} {}", name, src), "out": "panic", "msg": m, "run": run}) }
                                  Outcome::Done(Ok(())) => json!({"src": format!("{} {}", name, src), "out": "ok", "run": run}),
                                  Outcome::Done(Err(_)) => json!({"src": format!("{} {}", name, src), "out": "err", "run": run}) };
            r.calls += 1;
            if out["out"] == "panic" || r.calls % 20 == 0 {
                r.trace.push_str(&out.to_string());
                r.trace.push('\n');
            }
            if out["out"] == "panic" { break; }
        }
    }
    std::fs::write(&args[0], &r.trace).unwrap();
    println!("{}", json!({"runs": n, "calls": r.calls, "panics": r.panics}));
    0
}
