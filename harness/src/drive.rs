//! C15: the six drive modes of one program must be observationally equal.
use crate::prog::{run_source, run_source_after, Drive};
use crate::*;
use serde_json::{json, Value};

pub fn err_render(r: &Result<(), Xerr>) -> Value {
    match r {
        Ok(()) => json!("ok"),
        Err(e) => json!({"cls": err_class(e), "text": format!("{}", e)}),
    }
}

/// result, visible stack, every variable (var_list + heap), stdout
pub fn observables(r: &prog::RunObs) -> Value {
    let vars: Vec<Value> = r.xs.var_list().iter().map(|(n, c)| json!([n.as_str(), cell_json(c)])).collect();
    let d = r.xs.verif_dump();
    json!({
        "res": err_render(&r.res),
        "ds": stack_json(&r.xs),
        "vars": vars,
        "heap": d.heap.iter().map(cell_json).collect::<Vec<_>>(),
        "out": r.out,
    })
}

pub const MODES: [(Drive, bool, &str); 6] = [
    (Drive::Eval, false, "eval"),
    (Drive::Eval, true, "eval+rec"),
    (Drive::CompileRun, false, "run"),
    (Drive::CompileRun, true, "run+rec"),
    (Drive::CompileStep, false, "step"),
    (Drive::CompileStep, true, "step+rec"),
];

/// Late binding under redefinition: a word bound at its first call (possibly a call made while the source is still being
/// compiled, from a meta block) must stay bound the same way in every drive mode, recording or not.
fn late_stress(rng: &mut Rng) -> String {
    let mut out: Vec<String> = vec!["late g".into(), ": h g ;".into(), format!(": g {} ;", rng.below(5))];
    let n = 3 + rng.below(6);
    for _ in 0..n {
        out.push(match rng.below(8) {
            0 => format!(": g {} ;", 5 + rng.below(5)),
            1 => "h".into(),
            2 => "#( h #)".into(),
            3 => "#( h drop #)".into(),
            4 => "g".into(),
            5 => ": k h 1 + ; k".into(),
            6 => format!("#( : g {} ; #)", 10 + rng.below(5)),
            _ => "h h +".into(),
        });
    }
    out.join(" ")
}

/// xv drive-record <trace> <side> <seed> <n> <budget>
pub fn cmd_record(args: &[String]) -> i32 {
    let seed: u64 = args[2].parse().unwrap_or(1);
    let n: usize = args[3].parse().unwrap_or(100);
    let budget: usize = args[4].parse().unwrap_or(30);
    let dict: Vec<String> = fresh().word_list().iter().map(|s| s.to_string()).collect();
    let mut g = gen::Gen::new(seed, dict);
    let mut trace = String::new();
    let mut side = String::new();
    let mut events = 0usize;
    let mut ok_runs = 0usize;
    let mut distinct = std::collections::HashSet::new();
    for i in 0..n {
        let b = 6 + g.rng.below(budget);
        let src = if i % 12 == 7 { late_stress(&mut g.rng) } else { g.program(b) };
        // half of the programs start from an interpreter that is idle after an earlier source (driven by eval or by
        // compile + run): "idle" does not mean "fresh"
        let prior: Option<(String, bool)> = if i % 2 == 1 {
            let n = 4 + g.rng.below(8);
            let by_eval = g.rng.chance(1, 2);
            let mut p = g.program(n);
            // now and then the earlier source is rejected at build time after part of it was compiled, or it is single-stepped
            match g.rng.below(6) { 0 => p.push_str(" no-such-word 5"), 1 => p = format!("STEP {} 1 0 / 7", p), 2 => p = format!("STEP {}", p), _ => {} }
            Some((p, by_eval))
        } else { None };
        let mut obs_all = vec![];
        for (drive, rec, name) in MODES.iter() {
            let r = match &prior { Some(p) => run_source_after(p, &src, *drive, *rec, 20_000), None => run_source(&src, *drive, *rec, 20_000) };
            let o = observables(&r);
            let o = if r.panic.is_some() { json!({"panic": 1}) } else { o };
            let ev = json!({"run": i, "mode": name, "o": fnv(&o.to_string())});
            trace.push_str(&ev.to_string());
            trace.push('\n');
            events += 1;
            if *name == "eval" && r.res.is_ok() {
                ok_runs += 1;
            }
            obs_all.push(json!({"mode": name, "obs": o, "panic": r.panic}));
        }
        distinct.insert(fnv(&src));
        side.push_str(&json!({"run": i, "src": match &prior { Some(p) => format!("[after {} `{}`] {}", if p.1 { "eval" } else { "compile+run" }, p.0, src), None => src.clone() }, "modes": obs_all}).to_string());
        side.push('\n');
    }
    std::fs::write(&args[0], trace).unwrap();
    std::fs::write(&args[1], side).unwrap();
    println!("{}", json!({"runs": n, "events": events, "ok_runs": ok_runs, "distinct": distinct.len()}));
    0
}

/// xv drive-one <source>: the observables of one source under every drive mode (developer / replay helper)
pub fn cmd_one(args: &[String]) -> i32 {
    // xv drive-one <source> [<prior source> [eval|run]]
    let prior: Option<(String, bool)> = args.get(1).map(|p| (p.clone(), args.get(2).map(|s| s != "run").unwrap_or(true)));
    for (drive, rec, name) in MODES.iter() {
        let r = match &prior { Some(p) => run_source_after(p, &args[0], *drive, *rec, 20_000), None => run_source(&args[0], *drive, *rec, 20_000) };
        println!("{:<18} {}", name, if r.panic.is_some() { json!({"panic": r.panic}) } else { observables(&r) });
    }
    0
}
