//! `let` destructuring: cases from spec/mc/MC_Let.tla (a value, a pattern as token text with "N" for names, and the
//! outcome Let.tla prescribes) compiled by the real `let`, once at top level (names become global variables) and once
//! inside a definition (names become locals).
use crate::*;
use serde_json::{json, Value};

fn canon(v: &Value) -> String {
    cell_json(&json_cell(v)).to_string()
}

pub fn judge(c: &Value) -> Option<Value> {
    let exp_err = c["err"].as_str().unwrap_or("");
    if exp_err == "skip" {
        return None;
    }
    let mut k = 0usize;
    let mut names: Vec<String> = vec![];
    let pat: Vec<String> = c["toks"].as_array().map(|a| a.iter().map(|t| {
        let s = t.as_str().unwrap_or("");
        if s == "N" { k += 1; let n = format!("zq{}", k); names.push(n.clone()); n } else { s.to_string() }
    }).collect()).unwrap_or_default();
    let pat = pat.join(" ");
    let bound: Vec<String> = c["bound"].as_array().map(|a| a.iter().map(canon).collect()).unwrap_or_default();
    let value = json_cell(&c["value"]);
    let mut why: Vec<String> = vec![];

    // ---- top level: global variables
    let src = format!("let {}", pat);
    let mut xs = fresh();
    let v = value.clone();
    let r = guarded(|| { xs.push_data(v)?; xs.eval(&src) });
    match r {
        Outcome::Panic(m) => why.push(format!("`{}` panics: {}", src, m)),
        Outcome::Done(res) => {
            let got = match &res { Ok(()) => "none", Err(e) => err_class(e) };
            if got != exp_err {
                why.push(format!("`{}` (globals): outcome {} ({}), the pattern says {}", src, got, res.as_ref().err().map(|e| e.to_string()).unwrap_or_default(), exp_err));
            } else if exp_err != "Name" {
                if exp_err == "none" && xs.data_depth() != 0 {
                    why.push(format!("`{}` (globals): {} items left on the stack after a successful match", src, xs.data_depth()));
                }
                for (i, n) in names.iter().enumerate() {
                    let have = xs.get_var_value(n).ok().map(|c| cell_json(c).to_string());
                    let want = if i < bound.len() { Some(bound[i].clone()) } else { Some(json!({"ty": "nil"}).to_string()) };
                    if have != want {
                        why.push(format!("`{}` (globals): name #{} holds {:?}, the pattern says {:?}", src, i + 1, have, want));
                    }
                }
            }
        }
    }
    // ---- inside a definition: locals, read back after the match
    let src = format!(": zqf let {} {} ; zqf", pat, names.join(" "));
    let mut xs = fresh();
    let v = value.clone();
    let r = guarded(|| { xs.push_data(v)?; xs.eval(&src) });
    match r {
        Outcome::Panic(m) => why.push(format!("`{}` panics: {}", src, m)),
        Outcome::Done(res) => {
            let got = match &res { Ok(()) => "none", Err(e) => err_class(e) };
            if got != exp_err {
                why.push(format!("`{}` (locals): outcome {}, the pattern says {}", src, got, exp_err));
            } else if exp_err == "none" {
                let st: Vec<String> = visible_stack(&xs).iter().map(|c| cell_json(c).to_string()).collect();
                if st != bound {
                    why.push(format!("`{}` (locals): bound values {:?}, the pattern says {:?}", src, st, bound));
                }
            }
        }
    }
    if why.is_empty() { None } else { Some(json!({"case": c, "pattern": pat, "why": why})) }
}

/// xv let-replay <tlc-output> <mismatches>
pub fn cmd_replay(args: &[String]) -> i32 {
    let mut n = 0usize;
    let mut bad = 0usize;
    let mut skipped = 0usize;
    let mut failing = 0usize;
    let mut out = String::new();
    for_each_replay_line(&args[0], |c| {
        n += 1;
        if c["err"] == "skip" { skipped += 1; }
        if c["err"] != "none" { failing += 1; }
        if let Some(m) = judge(&c) {
            bad += 1;
            if bad <= 200 {
                out.push_str(&m.to_string());
                out.push('\n');
            }
        }
    });
    std::fs::write(&args[1], out).unwrap();
    println!("{}", json!({"cases": n, "mismatches": bad, "skipped": skipped, "failing_matches": failing}));
    0
}
