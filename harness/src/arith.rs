//! C09: cases from spec/mc/MC_C09.tla (128-bit integer results computed by Arith.tla at the bit level,
//! the small exact model of doubles, the operand-type dispatch table) replayed through eval.
use crate::*;
use serde_json::{json, Value};

fn jbits(v: &Value) -> Vec<u8> {
    v.as_array().map(|a| a.iter().map(|x| x.as_u64().unwrap_or(0) as u8).collect()).unwrap_or_default()
}
fn to_i128(bits: &[u8]) -> i128 {
    bits.iter().fold(0u128, |a, b| (a << 1) | (*b as u128)) as i128
}
fn real_of(v: &Value) -> f64 {
    match v["c"].as_str().unwrap_or("") {
        "inf" => if v["m"].as_i64().unwrap_or(1) > 0 { f64::INFINITY } else { f64::NEG_INFINITY },
        "nan" => f64::NAN,
        "nzero" => -0.0,
        _ => (v["m"].as_i64().unwrap_or(0) as f64) * 2f64.powi(v["e"].as_i64().unwrap_or(0) as i32),
    }
}
fn real_lit(x: f64) -> String {
    // there is no literal for inf / nan: build them by arithmetic that the model also covers elsewhere
    if x.is_nan() { "1.0e308 10.0 * dup -".into() }
    else if x == f64::INFINITY { "1.0e308 10.0 *".into() }
    else if x == f64::NEG_INFINITY { "-1.0e308 10.0 *".into() }
    else if x == 0.0 && x.is_sign_negative() { "-0.0".into() }
    else { format!("{:?}", x) }
}
fn same_real(got: f64, exp: f64) -> bool {
    if exp.is_nan() { got.is_nan() } else if exp == 0.0 { got == 0.0 } else { got.to_bits() == exp.to_bits() }
}

fn sample_of(t: &str) -> (&'static str, Cell) {
    match t {
        "int" => ("5", Cell::Int(5)),
        "real" => ("2.5", Cell::Real(2.5)),
        "str" => ("\"a\"", Cell::from("a")),
        "nil" => ("nil", Cell::Nil),
        "flag" => ("true", Cell::Flag(true)),
        "vec" => ("[ 1 ]", Cell::Vector(Xvec::new().push_back(Cell::Int(1)))),
        "zint" => ("0", Cell::Int(0)),
        "zreal" => ("0.0", Cell::Real(0.0)),
        "tzint" => ("0 \"t\" \"k\" insert-tag", Cell::Int(0)),
        _ => ("7 \"t\" \"k\" insert-tag", Cell::Int(7)),
    }
}

pub fn judge(c: &Value) -> Option<Value> {
    judge_as(c, false)
}

/// `tagged`: the last operand carries a tag map - the expected outcome is the same (tags never change what a number does)
pub fn judge_as(c: &Value, tagged: bool) -> Option<Value> {
    let tg = if tagged { " { 1 \"k\" } with-tags" } else { "" };
    let kind = c["kind"].as_str().unwrap_or("");
    let op = c["op"].as_str().unwrap_or("");
    let exp = &c["exp"];
    if exp["k"] == "skip" {
        return None;
    }
    let mut operands: Vec<Cell> = vec![];
    let src = match kind {
        "bin" | "shift" => { let a = to_i128(&jbits(&c["a"])); let b = to_i128(&jbits(&c["b"])); operands = vec![Cell::Int(a), Cell::Int(b)]; format!("{} {}{} {}", a, b, tg, op) }
        "un" => { let a = to_i128(&jbits(&c["a"])); operands = vec![Cell::Int(a)]; format!("{}{} {}", a, tg, op) }
        "rbin" => format!("{} {}{} {}", real_lit(real_of(&c["a"])), real_lit(real_of(&c["b"])), tg, op),
        "run" => format!("{}{} {}", real_lit(real_of(&c["a"])), tg, op),
        "tbin" => { let (sa, ca) = sample_of(c["a"].as_str().unwrap()); let (sb, cb) = sample_of(c["b"].as_str().unwrap()); operands = vec![ca, cb]; format!("{} {} {}", sa, sb, op) }
        "tun" => { let (sa, ca) = sample_of(c["a"].as_str().unwrap()); operands = vec![ca]; format!("{} {}", sa, op) }
        _ => return None,
    };
    let mut xs = fresh();
    let r = guarded(|| xs.eval(&src));
    let mut why: Vec<String> = vec![];
    match r {
        Outcome::Panic(m) => why.push(format!("panic: {}", m)),
        Outcome::Done(r) => {
            let top = xs.get_data(0).cloned();
            match exp["k"].as_str().unwrap_or("") {
                "int" => {
                    let v = to_i128(&jbits(&exp["v"]));
                    let ovf = exp["ovf"] == true;
                    match &r {
                        Ok(()) => {
                            if top.as_ref().and_then(|t| t.to_xint().ok()) != Some(v) || xs.data_depth() != 1 {
                                why.push(format!("result {:?}, expected {}{}", top, v, if ovf { " (the two's-complement wrapped value) or an overflow error" } else { "" }));
                            }
                        }
                        Err(e) => {
                            if !(ovf && err_class(e) == "Overflow") {
                                why.push(format!("error {} ({}), expected {}", err_class(e), e, v));
                            }
                        }
                    }
                }
                "flag" => {
                    let f = exp["f"] == "true";
                    if r.is_err() || top.as_ref().and_then(|t| t.to_bool().ok()) != Some(f) || xs.data_depth() != 1 {
                        why.push(format!("result {:?} / {:?}, expected {}", r.as_ref().err().map(|e| err_class(e)), top, f));
                    }
                }
                "small" => {
                    let n = exp["n"].as_i64().unwrap_or(0) as i128;
                    if r.is_err() || top.as_ref().and_then(|t| t.to_xint().ok()) != Some(n) {
                        why.push(format!("result {:?} / {:?}, expected {}", r.as_ref().err().map(|e| err_class(e)), top, n));
                    }
                }
                "real" => {
                    let x = real_of(&exp["r"]);
                    match (&r, top.as_ref().and_then(|t| t.to_real().ok())) {
                        (Ok(()), Some(g)) if same_real(g, x) => {}
                        _ => why.push(format!("result {:?} / {:?}, expected {:?}", r.as_ref().err().map(|e| err_class(e)), top, x)),
                    }
                }
                "err" => {
                    let cls = exp["cls"].as_str().unwrap_or("");
                    match &r {
                        Err(e) if err_class(e) == cls => {}
                        other => why.push(format!("result {:?} / {:?}, expected error {}", other.as_ref().err().map(|e| err_class(e)), top, cls)),
                    }
                }
                "type" => {
                    if exp["cls"] == "Type" {
                        match &r {
                            Err(e) if err_class(e) == "Type" => {
                                match err_payload(e) {
                                    Some(p) => {
                                        if !operands.iter().any(|o| o == &p) {
                                            why.push(format!("the type error reports {:?}, which is none of the operands {:?}", p, operands));
                                        }
                                    }
                                    None => why.push("the type error carries no operand".into()),
                                }
                            }
                            other => why.push(format!("result {:?} / {:?}, expected a type error", other.as_ref().err().map(|e| err_class(e)), top)),
                        }
                    } else if exp["cls"] == "DivZero" {
                        match &r {
                            Err(e) if err_class(e) == "DivZero" => {}
                            other => why.push(format!("result {:?} / {:?}, expected a division error", other.as_ref().err().map(|e| err_class(e)), top)),
                        }
                    } else if exp["cls"] == "skip" {
                    } else if let Err(e) = &r {
                        // well-typed: may only fail for value reasons (none with these samples)
                        why.push(format!("well-typed operands failed: {} ({})", err_class(e), e));
                    }
                }
                _ => {}
            }
        }
    }
    if why.is_empty() { None } else { Some(json!({"src": src, "why": why, "exp": exp})) }
}

/// xv arith-replay <tlc-output> <mismatches>
pub fn cmd_replay(args: &[String]) -> i32 {
    let mut n = 0usize;
    let mut judged = 0usize;
    let mut bad = 0usize;
    let mut out = String::new();
    for_each_replay_line(&args[0], |c| {
        n += 1;
        if c["exp"]["k"] != "skip" { judged += 1; }
        if let Some(m) = judge(&c) {
            bad += 1;
            if bad <= 300 {
                out.push_str(&m.to_string());
                out.push('\n');
            }
        }
        // every third case once more with a tagged operand
        if n % 3 == 0 && matches!(c["kind"].as_str(), Some("bin") | Some("un") | Some("shift") | Some("rbin") | Some("run")) {
            if let Some(m) = judge_as(&c, true) {
                bad += 1;
                if bad <= 300 {
                    out.push_str(&m.to_string());
                    out.push('\n');
                }
            }
        }
    });
    std::fs::write(&args[1], out).unwrap();
    println!("{}", json!({"cases": n, "judged": judged, "mismatches": bad}));
    0
}

fn pattern(v: i128) -> Vec<u8> {
    (0..128).rev().map(|i| (((v as u128) >> i) & 1) as u8).collect()
}

/// xv arith-record <trace> <seed> <n>
pub fn cmd_record(args: &[String]) -> i32 {
    let seed: u64 = args[1].parse().unwrap_or(1);
    let n: usize = args[2].parse().unwrap_or(500);
    let mut rng = Rng::new(seed);
    let bin = ["+", "-", "*", "/", "rem", "min", "max", "<", "<=", ">", ">=", "==", "<>", "band", "bor", "bxor"];
    let un = ["neg", "abs", "bnot"];
    let mut trace = String::new();
    let mut pick = |rng: &mut Rng| -> i128 {
        let raw = (((rng.next() as u128) << 64) | rng.next() as u128) as i128;
        match rng.below(7) {
            0 => raw >> rng.below(127),
            1 => (1i128 << rng.below(127)).wrapping_add(rng.range(-1, 1) as i128),
            2 => -(1i128 << rng.below(127)),
            3 => rng.range(-3, 3) as i128,
            4 => if rng.chance(1, 2) { i128::MIN } else { i128::MAX },
            _ => raw,
        }
    };
    for i in 0..n {
        let a = pick(&mut rng);
        let b = pick(&mut rng);
        let (src, op, s) = match rng.below(10) {
            0 => { let o = un[rng.below(un.len())]; (format!("{} {}", a, o), o, 0usize) }
            1 => { let s = rng.below(128); let o = if rng.chance(1, 2) { "bsl" } else { "bsr" }; (format!("{} {} {}", a, s, o), o, s) }
            _ => { let o = bin[rng.below(bin.len())]; (format!("{} {} {}", a, b, o), o, 0usize) }
        };
        let mut xs = fresh();
        let r = guarded(|| xs.eval(&src));
        let res = match r {
            Outcome::Panic(_) => json!({"k": "panic"}),
            Outcome::Done(Err(e)) => json!({"k": "err", "cls": err_class(&e)}),
            Outcome::Done(Ok(())) => match xs.get_data(0).map(|c| c.value().clone()) {
                Some(Cell::Int(v)) => json!({"k": "int", "v": pattern(v)}),
                Some(Cell::Flag(f)) => json!({"k": "flag", "f": if f {1} else {0}}),
                other => json!({"k": "other", "s": format!("{:?}", other)}),
            },
        };
        trace.push_str(&json!({"run": i, "src": src, "op": op, "a": pattern(a), "b": pattern(b), "s": s, "res": res}).to_string());
        trace.push('\n');
    }
    std::fs::write(&args[0], trace).unwrap();
    println!("{}", json!({"events": n}));
    0
}
