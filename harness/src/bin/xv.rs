//! xv — conformance harness entry point.  Subcommands are thin wrappers over the family
//! modules; all input/output is NDJSON so that TLC (Json module) and the orchestrator can
//! read and write the same records.
use std::env;

fn main() {
    xv::quiet_panics();
    let args: Vec<String> = env::args().collect();
    if args.len() < 2 {
        eprintln!("usage: xv <subcommand> ...");
        std::process::exit(2);
    }
    let rest = &args[2..];
    let code = std::panic::catch_unwind(|| match args[1].as_str() {
        "replay-prog" => xv::prog::cmd_replay(rest),
        "code-drift" => xv::prog::cmd_code_drift(rest),
        "prog-record" => xv::prog::cmd_record(rest),
        "rev-record" => xv::rev::cmd_record(rest),
        "drive-record" => xv::drive::cmd_record(rest),
        "drive-one" => xv::drive::cmd_one(rest),
        "limits-replay" => xv::limits::cmd_replay(rest),
        "limits-record" => xv::limits::cmd_record(rest),
        "twin-replay" => xv::twin::cmd_replay(rest),
        "twin-record" => xv::twin::cmd_record(rest),
        "meta-replay" => xv::twin::cmd_meta_replay(rest),
        "meta-record" => xv::twin::cmd_meta_record(rest),
        "bits-replay" => xv::bitsrep::cmd_replay(rest),
        "bits-record" => xv::bitsrep::cmd_record(rest),
        "codec-replay" => xv::codec::cmd_replay(rest),
        "codec-record" => xv::codec::cmd_record(rest),
        "cursor-replay" => xv::cursor::cmd_replay(rest),
        "cursor-record" => xv::cursor::cmd_record(rest),
        "pack-replay" => xv::pack::cmd_replay(rest),
        "pack-record" => xv::pack::cmd_record(rest),
        "arith-replay" => xv::arith::cmd_replay(rest),
        "arith-record" => xv::arith::cmd_record(rest),
        "coll-replay" => xv::coll::cmd_replay(rest),
        "tags-record" => xv::tags::cmd_record(rest),
        "lex-replay" => xv::lexrep::cmd_replay(rest),
        "print-replay" => xv::lexrep::cmd_print_replay(rest),
        "lex-fuzz" => xv::lexrep::cmd_fuzz(rest),
        "lexrange-replay" => xv::lexrep::cmd_range_replay(rest),
        "loc-replay" => xv::loc::cmd_replay(rest),
        "locfn-replay" => xv::loc::cmd_fn_replay(rest),
        "locnest-replay" => xv::loc::cmd_nested_replay(rest),
        "textcodec-record" => xv::textcodec::cmd_record(rest),
        "let-replay" => xv::letrep::cmd_replay(rest),
        "clone-record" => xv::clone::cmd_record(rest),
        "total-matrix" => xv::total::cmd_matrix(rest),
        "total-pairs" => xv::total::cmd_pairs(rest),
        "total-api" => xv::total::cmd_api(rest),
        other => {
            eprintln!("unknown subcommand {}", other);
            2
        }
    });
    let code = match code {
        Ok(c) => c,
        Err(_) => {
            // a panic of the code under test outside every guarded section (e.g. while a state is cloned, dumped or dropped)
            eprintln!("UNGUARDED-PANIC {}", xv::LAST_PANIC.with(|l| l.borrow().clone()));
            101
        }
    };
    std::process::exit(code);
}
