//! C18: text encodings of binary data round-trip.  Cases from spec/mc/MC_C18.tla are run through eval and
//! recorded as events for Trace_TextCodec.
use crate::*;
use serde_json::{json, Value};

const CODECS: [&str; 4] = ["base32", "base32hex", "base64", "zero85"];

fn str_lit(s: &str) -> String {
    let mut o = String::from("\"");
    for ch in s.chars() {
        match ch { '"' => o.push_str("\\\""), '\\' => o.push_str("\\\\"), '\n' => o.push_str("\\n"), '\t' => o.push_str("\\t"), c => o.push(c) }
    }
    o.push('"');
    o
}

fn arg_src(bytes: &[u8], align: usize, form: &str) -> String {
    match form {
        "bits" | "ownbits" => {
            // a slice starting at bit `align` of a parent: | fill bits | payload | via open-bitstr / bits
            let mut bits = String::from("|");
            for _ in 0..align { bits.push('x'); }
            for b in bytes { for i in (0..8).rev() { bits.push(if (b >> i) & 1 == 1 { 'x' } else { '.' }); } }
            bits.push_str("x|");
            if form == "ownbits" {
                // inverted twice: a buffer computed at run time that nothing else refers to once the cursor is closed
                format!("{} bitstr-not bitstr-not open-bitstr {} bits drop {} bits close-bitstr", bits, align, bytes.len() * 8)
            } else {
                format!("{} open-bitstr {} bits drop {} bits close-bitstr", bits, align, bytes.len() * 8)
            }
        }
        "list" => format!("[ {} ]", bytes.iter().map(|b| b.to_string()).collect::<Vec<_>>().join(" ")),
        "nested" => {
            let k = bytes.len() / 2;
            format!("[ [ {} ] [ {} ] ]", bytes[..k].iter().map(|b| b.to_string()).collect::<Vec<_>>().join(" "), bytes[k..].iter().map(|b| b.to_string()).collect::<Vec<_>>().join(" "))
        }
        _ => str_lit(&String::from_utf8_lossy(bytes)),
    }
}

fn bad_src(kind: &str) -> &'static str {
    match kind {
        "oddbits" => "|x.x|",
        "bigint" => "[ 1 256 ]",
        "negint" => "[ -1 ]",
        "real" => "[ 1.5 ]",
        "nilarg" => "nil",
        "map" => "{ 1 2 }",
        _ => "[ 1 nil ]",
    }
}

fn top_text(xs: &Xstate) -> Option<String> { xs.get_data(0).and_then(|c| c.str().ok().map(|s| s.to_string())) }
fn top_bytes(xs: &Xstate) -> Option<Vec<u8>> { xs.get_data(0).and_then(|c| c.bitstr().ok().and_then(|b| b.to_bytes())) }
fn top_is_nil(xs: &Xstate) -> bool { xs.get_data(0).map(|c| c.value() == &Cell::Nil).unwrap_or(false) }

fn run(src: &str) -> (Xstate, &'static str) {
    let mut xs = fresh();
    let r = guarded(|| xs.eval(src));
    let k = match r { Outcome::Panic(_) => "panic", Outcome::Done(Ok(())) => "ok", Outcome::Done(Err(_)) => "err" };
    (xs, k)
}

/// xv textcodec-record <tlc-output> <trace>
pub fn cmd_record(args: &[String]) -> i32 {
    let mut trace = String::new();
    let mut n = 0usize;
    let mut events = 0usize;
    let mut push = |trace: &mut String, v: Value| { trace.push_str(&v.to_string()); trace.push('\n'); };
    for_each_replay_line(&args[0], |c| {
        n += 1;
        let kind = c["kind"].as_str().unwrap_or("");
        for codec in CODECS.iter() {
            match kind {
                "bytes" => {
                    let bytes: Vec<u8> = c["bytes"].as_array().map(|a| a.iter().map(|x| x.as_u64().unwrap_or(0) as u8).collect()).unwrap_or_default();
                    let arg = arg_src(&bytes, c["align"].as_u64().unwrap_or(0) as usize, c["form"].as_str().unwrap_or("bits"));
                    let (xs, k) = run(&format!("{} {}", arg, codec));
                    let text = top_text(&xs);
                    push(&mut trace, json!({"codec": codec, "op": "enc", "res": if k == "ok" && text.is_some() { "ok" } else { k }, "bytes": bytes, "text": text.clone().unwrap_or_else(|| "<none>".into()), "src": arg}));
                    events += 1;
                    if let Some(t) = text {
                        let (xd, kd) = run(&format!("{} {}>", str_lit(&t), codec));
                        let back = top_bytes(&xd);
                        push(&mut trace, json!({"codec": codec, "op": "dec", "res": if kd == "ok" && back.is_some() { "ok" } else if kd == "ok" { "nil" } else { kd }, "bytes": back.clone().unwrap_or_else(|| vec![1, 2, 3, 4, 5, 6, 7, 8, 9, 10, 11, 12, 13, 14, 15, 16, 17]), "text": t}));
                        events += 1;
                        // one character deleted (every position for short texts)
                        let chars: Vec<char> = t.chars().collect();
                        for del in 0..chars.len().min(6) {
                            let t2: String = chars.iter().enumerate().filter(|(i, _)| *i != del).map(|(_, c)| *c).collect();
                            let (xd, kd) = run(&format!("{} {}>", str_lit(&t2), codec));
                            let res = if kd != "ok" { kd } else if top_is_nil(&xd) { "nil" } else { "ok" };
                            let reenc = if res == "ok" {
                                let (xe, ke) = run(&format!("{} {}> {}", str_lit(&t2), codec, codec));
                                if ke == "ok" { top_text(&xe) } else { None }
                            } else { None };
                            push(&mut trace, json!({"codec": codec, "op": "decdel", "res": res, "text": t2, "reenc": reenc.unwrap_or_else(|| "<none>".into())}));
                            events += 1;
                        }
                    }
                }
                "text" => {
                    let t = c["form"].as_str().unwrap_or("");
                    // a never-valid character somewhere in an otherwise plausible text
                    for text in [t.to_string(), format!("AAAA{}", t), format!("{}AAAA", t)] {
                        if !text.chars().any(|ch| ch == ' ' || ch == '`' || ch == '~' || ch == '\t' || !ch.is_ascii()) { continue; }
                        let (xd, kd) = run(&format!("{} {}>", str_lit(&text), codec));
                        let res = if kd != "ok" { kd } else if top_is_nil(&xd) { "nil" } else { "value" };
                        push(&mut trace, json!({"codec": codec, "op": "decbad", "res": res, "text": text}));
                        events += 1;
                    }
                }
                _ => {
                    let arg = bad_src(kind);
                    let (xs, k) = run(&format!("{} {}", arg, codec));
                    let (xb, kb) = run(&format!("{} >bitstr", arg));
                    let tob = if kb != "ok" { "err" } else if xb.get_data(0).and_then(|c| c.bitstr().ok().map(|b| b.len() % 8 != 0)).unwrap_or(false) { "notbytes" } else { "ok" };
                    let _ = xs;
                    push(&mut trace, json!({"codec": codec, "op": "encbad", "res": k, "tobitstr": tob, "src": arg}));
                    events += 1;
                }
            }
        }
    });
    std::fs::write(&args[1], trace).unwrap();
    println!("{}", json!({"cases": n, "events": events}));
    0
}
