//! C12: map histories and sequence cases from spec/mc/MC_C12.tla.
use crate::*;
use serde_json::{json, Value};

/// Does the real cell equal the cell the specification predicts?  Maps are compared as sets of
/// pairs (the iteration order of the implementation's tree is not part of the property); reals are
/// given by their literal text; tags are ignored (the language's equality does).
pub fn cell_matches(exp: &Value, got: &Cell) -> bool {
    let got = got.value();
    match exp["ty"].as_str().unwrap_or("") {
        "nil" => got == &Cell::Nil,
        "flag" => got == &Cell::Flag(exp["b"].as_i64() == Some(1)),
        "int" => got == &Cell::Int(exp["i"].as_i64().unwrap_or(0) as i128),
        "real" => match got { Cell::Real(r) => exp["s"].as_str().and_then(|s| s.parse::<f64>().ok()) == Some(*r), _ => false },
        "str" => match got { Cell::Str(s) => Some(s.as_str()) == exp["s"].as_str(), _ => false },
        "bits" => match got { Cell::Bitstr(b) => b.bits().map(|x| json!(x)).collect::<Vec<_>>() == exp["b"].as_array().cloned().unwrap_or_default(), _ => false },
        "vec" => match got {
            Cell::Vector(v) => {
                let items = exp["items"].as_array().cloned().unwrap_or_default();
                v.len() == items.len() && v.iter().zip(items.iter()).all(|(g, e)| cell_matches(e, g))
            }
            _ => false,
        },
        "map" => match got {
            Cell::Map(m) => {
                let kv = exp["kv"].as_array().cloned().unwrap_or_default();
                m.size() == kv.len() && kv.iter().all(|p| m.iter().any(|(k, v)| cell_matches(&p[0], k) && cell_matches(&p[1], v)))
            }
            _ => false,
        },
        _ => false,
    }
}

fn judge_map(c: &Value) -> Option<Value> {
    let path = c["path"].as_array().cloned().unwrap_or_default();
    let mut src = String::from("{ }");
    let mut lit_pairs: Vec<String> = vec![];
    for st in &path {
        let k = st["k"].as_str().unwrap_or("");
        match st["op"].as_str().unwrap_or("") {
            "insert" => { src.push_str(&format!(" dup {} {} insert", st["v"].as_str().unwrap_or("0"), k)); lit_pairs.push(format!("{} {}", st["v"].as_str().unwrap_or("0"), k)); }
            "remove" => src.push_str(&format!(" dup {} remove", k)),
            _ => src.push_str(&format!(" dup {} get over", k)),
        }
    }
    let mut xs = fresh();
    let r = guarded(|| xs.eval(&src));
    let mut why: Vec<String> = vec![];
    match r {
        Outcome::Panic(m) => why.push(format!("panic: {}", m)),
        Outcome::Done(Err(e)) => why.push(format!("failed: {} ({})", err_class(&e), e)),
        Outcome::Done(Ok(())) => {
            let st = visible_stack(&xs);
            let exp = c["stack"].as_array().cloned().unwrap_or_default();
            if st.len() != exp.len() {
                why.push(format!("{} items on the stack, expected {}", st.len(), exp.len()));
            } else {
                for (i, (g, e)) in st.iter().zip(exp.iter()).enumerate() {
                    if !cell_matches(e, g) {
                        why.push(format!("stack item {} is {:?}, the association-list model says {}", i, g, e));
                        break;
                    }
                }
            }
        }
    }
    // the map literal built from the inserted pairs only (no removes in the path) must equal the final map
    if why.is_empty() && !path.iter().any(|s| s["op"] != "insert") && !lit_pairs.is_empty() {
        let lit = format!("{{ {} }}", lit_pairs.join(" "));
        let mut xs = fresh();
        match guarded(|| xs.eval(&lit)) {
            Outcome::Done(Ok(())) => {
                let got = xs.get_data(0).cloned().unwrap_or(Cell::Nil);
                if !cell_matches(&json!({"ty": "map", "kv": c["final"]}), &got) {
                    why.push(format!("map literal `{}` is {:?}, the model says {}", lit, got, c["final"]));
                }
            }
            other => why.push(format!("map literal `{}` failed", lit)),
        }
    }
    if why.is_empty() { None } else { Some(json!({"src": src, "why": why, "keytypes": c["keytypes"], "mode": "map"})) }
}

fn num(v: &Value) -> String {
    let i = v.as_i64().unwrap_or(0);
    if i == 1000000007 { "18446744073709551616".into() } else if i == -1000000007 { "-18446744073709551616".into() } else { i.to_string() }
}

fn unmark(s: &str) -> String {
    s.replace("@U2@", "\u{00C4}").replace("@U4@", "\u{1F600}")
}

fn judge_seq(c: &Value) -> Option<Value> {
    let w = c["w"].as_str().unwrap_or("");
    let coll_owned = unmark(c["coll"].as_str().unwrap_or(""));
    let coll = coll_owned.as_str();
    let args: Vec<String> = c["args"].as_array().map(|a| a.iter().map(num).collect()).unwrap_or_default();
    let src = match w {
        "nth" | "get" => format!("{} dup {} {}", coll, args[0], w),
        "slice" => format!("{} dup {} {} slice", coll, args[0], args[1]),
        "reverse" | "length" | "sort" => format!("{} dup {}", coll, w),
        "push" => format!("{} dup 9 swap push", coll),
        "unboxcollect" => format!("{} dup dup length swap unbox depth 2 - swap drop collect", coll),
        "sslice" => format!("\"{}\" {} {} slice", coll, args[0], args[1]),
        "slength" => format!("\"{}\" length", coll),
        "join" => format!("{} \"{}\" join", coll, c["sep"].as_str().unwrap_or("")),
        "concat" => format!("{} concat", coll),
        _ => return None,
    };
    // simpler, robust form for unbox/collect
    let src = if w == "unboxcollect" { format!("{} dup length swap dup rot swap unbox depth 2 - collect", coll) } else { src };
    let src = if w == "unboxcollect" { format!("{} dup unbox depth 1 - collect", coll) } else { src };
    let mut xs = fresh();
    let r = guarded(|| xs.eval(&src));
    let exp = &c["exp"];
    let mut why: Vec<String> = vec![];
    match r {
        Outcome::Panic(m) => why.push(format!("panic: {}", m)),
        Outcome::Done(r) => {
            let k = exp["k"].as_str().unwrap_or("");
            match (&r, k) {
                (Err(_), "err") | (Err(_), "valorerr") => {}
                (Err(e), _) => why.push(format!("failed with {} ({}), expected a value", err_class(e), e)),
                (Ok(()), "err") => why.push(format!("succeeded with {:?}, expected an out-of-range error", xs.get_data(0))),
                (Ok(()), _) => {
                    let top = xs.get_data(0).cloned().unwrap_or(Cell::Nil);
                    let okv = if exp.get("chars").is_some() {
                        let s: String = unmark(&exp["chars"].as_array().map(|a| a.iter().map(|x| x.as_str().unwrap_or("")).collect::<String>()).unwrap_or_default());
                        top.str().map(|t| t == s).unwrap_or(false)
                    } else {
                        cell_matches(&exp["v"], &top)
                    };
                    if !okv {
                        why.push(format!("result {:?}, the sequence model says {}", top, if exp.get("chars").is_some() { exp["chars"].clone() } else { exp["v"].clone() }));
                    }
                    // the collection still referenced below the result is unchanged
                    if !coll.starts_with('"') && w != "sslice" && w != "slength" && w != "join" && w != "concat" {
                        let mut y = fresh();
                        let _ = y.eval(coll);
                        if xs.get_data(1) != y.get_data(0) {
                            why.push("the collection still referenced on the stack was changed".into());
                        }
                    }
                }
            }
        }
    }
    if why.is_empty() { None } else { Some(json!({"src": src, "why": why, "mode": "seq"})) }
}

/// xv coll-replay <tlc-output> <mismatches>
pub fn cmd_replay(args: &[String]) -> i32 {
    let mut n = 0usize;
    let mut bad = 0usize;
    let mut out = String::new();
    for_each_replay_line(&args[0], |c| {
        n += 1;
        let m = if c["mode"] == "map" { judge_map(&c) } else { judge_seq(&c) };
        if let Some(m) = m {
            bad += 1;
            if bad <= 2000 {
                out.push_str(&m.to_string());
                out.push('\n');
            }
        }
    });
    std::fs::write(&args[1], out).unwrap();
    println!("{}", json!({"cases": n, "mismatches": bad}));
    0
}
