//! C04: transitions of spec/BitstrStore.tla replayed on xeh::bitstr::Bitstr.
//! Every transition TLC explores is one test: build the pre-state layout (buffers with their
//! exact bytes, ownership and borrowed flag; handles with their exact ranges) through the public
//! API, apply the operation, and compare every live handle with the abstract bit sequence the
//! specification predicts.  The derived views (iter8, len, hex, bytes, ==) are checked against
//! reference functions of the predicted bits.
use crate::*;
use serde_json::{json, Value};
use xeh::bitstr::Bitstr;

fn pack(bits: &[u8]) -> Vec<u8> {
    let mut v = vec![0u8; (bits.len() + 7) / 8];
    for (i, b) in bits.iter().enumerate() {
        if *b != 0 {
            v[i / 8] |= 1 << (7 - (i % 8));
        }
    }
    v
}

fn jbits(v: &Value) -> Vec<u8> {
    v.as_array().map(|a| a.iter().map(|x| x.as_u64().unwrap_or(0) as u8).collect()).unwrap_or_default()
}

pub fn build_layout(pre: &Value) -> Vec<Option<Bitstr>> {
    let bufs = pre["bufs"].as_array().cloned().unwrap_or_default();
    let hs = pre["hs"].as_array().cloned().unwrap_or_default();
    let mut table: Vec<Option<Bitstr>> = vec![None; hs.len()];
    for (bi, b) in bufs.iter().enumerate() {
        if b["rc"].as_u64().unwrap_or(0) == 0 {
            continue;
        }
        let bits = jbits(&b["bits"]);
        let bytes = pack(&bits);
        let base = if bits.is_empty() {
            Bitstr::new()
        } else if b["borrowed"].as_u64().unwrap_or(0) == 1 {
            let leaked: &'static [u8] = Box::leak(bytes.into_boxed_slice());
            Bitstr::from(leaked)
        } else {
            Bitstr::from(bytes)
        };
        for (hi, h) in hs.iter().enumerate() {
            if h["buf"].as_u64().unwrap_or(0) as usize == bi + 1 {
                let s = h["s"].as_u64().unwrap() as usize;
                let e = h["e"].as_u64().unwrap() as usize;
                table[hi] = Some(base.substr(s, e).expect("layout"));
            }
        }
        drop(base);
    }
    table
}

fn hex_ref(bits: &[u8]) -> String {
    // to_hex_string: per 8-bit group (last may be short): high nibble if the group has more than 4 bits, then low nibble
    let mut s = String::new();
    for g in bits.chunks(8) {
        let mut val: u32 = 0;
        for b in g {
            val = (val << 1) | (*b as u32);
        }
        if g.len() > 4 {
            s.push(std::char::from_digit(val >> 4, 16).unwrap());
        }
        s.push(std::char::from_digit(val & 0xf, 16).unwrap());
    }
    s
}

pub fn check_views(name: &str, h: &Bitstr, exp: &[u8], why: &mut Vec<String>) {
    let got: Vec<u8> = h.bits().collect();
    if got != exp {
        why.push(format!("{}: bits {:?}, expected {:?}", name, got, exp));
        return;
    }
    if h.len() != exp.len() {
        why.push(format!("{}: len() {} expected {}", name, h.len(), exp.len()));
    }
    let groups: Vec<(u8, u32)> = h.iter8().collect();
    let expg: Vec<(u8, u32)> = exp.chunks(8).map(|g| (g.iter().fold(0u8, |a, b| (a << 1) | b), g.len() as u32)).collect();
    if groups != expg {
        why.push(format!("{}: iter8() {:?}, expected {:?}", name, groups, expg));
    }
    if h.to_hex_string() != hex_ref(exp) {
        why.push(format!("{}: to_hex_string() {}, expected {}", name, h.to_hex_string(), hex_ref(exp)));
    }
    let bytes = h.to_bytes();
    let expb = if exp.len() % 8 == 0 { Some(pack(exp)) } else { None };
    if bytes != expb {
        why.push(format!("{}: to_bytes() {:?}, expected {:?}", name, bytes, expb));
    }
    let fresh = bitstr_from_bits(exp);
    if !(h == &fresh) || !(&fresh == h) {
        why.push(format!("{}: not == to a fresh bit-string with the same bits", name));
    }
}

pub fn judge(case: &Value) -> Option<Value> {
    let mut t = build_layout(&case["pre"]);
    let op = case["op"].as_str().unwrap_or("");
    let a = &case["args"];
    let hix = |k: &str| a[k].as_u64().map(|x| x as usize - 1);
    let num = |k: &str| a[k].as_u64().unwrap_or(0) as usize;
    let mut why: Vec<String> = vec![];
    let mut refused: Option<bool> = None;
    let r = guarded(|| {
        match op {
            "from_vec" => {
                t[hix("h").unwrap()] = Some(Bitstr::from(pack(&jbits(&a["bits"]))));
            }
            "from_static" => {
                let leaked: &'static [u8] = Box::leak(pack(&jbits(&a["bits"])).into_boxed_slice());
                t[hix("h").unwrap()] = Some(Bitstr::from(leaked));
            }
            "drop" => {
                t[hix("h").unwrap()] = None;
            }
            "clone" => {
                let c = t[hix("h").unwrap()].as_ref().unwrap().clone();
                t[hix("r").unwrap()] = Some(c);
            }
            "read" => {
                let r = t[hix("h").unwrap()].as_mut().unwrap().read(num("n"));
                t[hix("r").unwrap()] = r;
            }
            "peek" => {
                let r = t[hix("h").unwrap()].as_ref().unwrap().peek(num("n"));
                t[hix("r").unwrap()] = r;
            }
            "seek" => {
                let h = t[hix("h").unwrap()].as_ref().unwrap();
                let r = h.seek(h.start() + num("n"));
                t[hix("r").unwrap()] = r;
            }
            "seekabs" => {
                let r = t[hix("h").unwrap()].as_ref().unwrap().seek(num("a"));
                refused = Some(r.is_none());
                t[hix("r").unwrap()] = r;
            }
            "substrabs" => {
                let r = t[hix("h").unwrap()].as_ref().unwrap().substr(num("i"), num("j"));
                refused = Some(r.is_none());
                t[hix("r").unwrap()] = r;
            }
            "substr" => {
                let h = t[hix("h").unwrap()].as_ref().unwrap();
                let r = h.substr(h.start() + num("i"), h.start() + num("j"));
                t[hix("r").unwrap()] = r;
            }
            "append" => {
                let tail = t[hix("t").unwrap()].as_ref().unwrap().clone();
                let tail_ref = t[hix("t").unwrap()].take().unwrap();
                drop(tail); // keep the reference count of the tail's buffer exactly as in the layout
                let h = t[hix("h").unwrap()].take().unwrap();
                let res = h.append(&tail_ref);
                t[hix("t").unwrap()] = Some(tail_ref);
                t[hix("h").unwrap()] = Some(res);
            }
            "insert" => {
                let tail_ref = t[hix("t").unwrap()].take().unwrap();
                let h = t[hix("h").unwrap()].take().unwrap();
                let res = h.insert(num("k"), &tail_ref);
                t[hix("t").unwrap()] = Some(tail_ref);
                t[hix("h").unwrap()] = res;
            }
            "invert" => {
                let h = t[hix("h").unwrap()].take().unwrap();
                t[hix("h").unwrap()] = Some(h.invert());
            }
            "detach" => {
                let h = t[hix("h").unwrap()].take().unwrap();
                t[hix("h").unwrap()] = Some(h.detach());
            }
            _ => {}
        }
        (t, refused)
    });
    match r {
        Outcome::Panic(m) => why.push(format!("panic: {}", m)),
        Outcome::Done((t, refused)) => {
            // where the result of a mutating operation starts in its buffer is part of its meaning (open-bitstr shows it
            // as `offset`): it must be what the specification says, whoever else holds the buffer
            if matches!(op, "append" | "invert" | "detach" | "insert") {
                if let (Some(hi), Some(starts)) = (hix("h"), case["starts"].as_array()) {
                    if let (Some(bs), Some(want)) = (t[hi].as_ref(), starts.get(hi).and_then(|x| x.as_u64())) {
                        if bs.start() as u64 != want {
                            why.push(format!("handle {}: the result starts at bit {} of its buffer, the specification says {}", hi + 1, bs.start(), want));
                        }
                    }
                }
            }
            // operations with absolute positions: refused exactly when the specification says so
            if let Some(got) = refused {
                let want = a["none"].as_u64().unwrap_or(0) == 1;
                if got != want {
                    why.push(format!("{} {}: the operation {} although the position is {} the value", op, a, if got { "was refused" } else { "returned a value" }, if want { "outside" } else { "inside" }));
                }
            }
            let post = case["post"].as_array().cloned().unwrap_or_default();
            // liveness after the operation, from the pre-state and the operation
            for (i, h) in t.iter().enumerate() {
                match h {
                    Some(bs) => check_views(&format!("handle {}", i + 1), bs, &jbits(&post[i]), &mut why),
                    None => {
                        let was = case["pre"]["hs"][i]["buf"].as_u64().unwrap_or(0) != 0;
                        let dropped = op == "drop" && hix("h") == Some(i);
                        let produced = (hix("r") == Some(i) && a["none"].as_u64().unwrap_or(0) != 1) || (matches!(op, "from_vec" | "from_static") && hix("h") == Some(i));
                        if (was && !dropped) || produced {
                            why.push(format!("handle {}: the operation returned nothing", i + 1));
                        }
                    }
                }
            }
            // pairwise equality must be equality of bit sequences
            for i in 0..t.len() {
                for j in 0..t.len() {
                    if let (Some(x), Some(y)) = (&t[i], &t[j]) {
                        let same = jbits(&post[i]) == jbits(&post[j]);
                        if (x == y) != same {
                            why.push(format!("handles {} and {}: == gives {}, bit sequences are {}", i + 1, j + 1, x == y, if same {"equal"} else {"different"}));
                        }
                    }
                }
            }
        }
    }
    if why.is_empty() { None } else { Some(json!({"case": case, "why": why})) }
}

/// xv bits-replay <tlc-output-or-ndjson> <mismatches>
pub fn cmd_replay(args: &[String]) -> i32 {
    let mut bad = 0usize;
    let mut n = 0usize;
    let mut out = String::new();
    let mut ops: std::collections::BTreeMap<String, usize> = Default::default();
    let mut layouts = std::collections::HashSet::new();
    for_each_replay_line(&args[0], |c| {
        n += 1;
        *ops.entry(c["op"].as_str().unwrap_or("").to_string()).or_default() += 1;
        layouts.insert(fnv(&c["pre"].to_string()));
        // rendering a handle is code under test as well: a panic there (a handle left inconsistent by the operation) is a mismatch
        let verdict = match guarded(|| judge(&c)) {
            Outcome::Done(v) => v,
            Outcome::Panic(m) => Some(json!({"case": c, "why": [format!("panic while the handles were built or rendered: {}", m)]})),
        };
        if let Some(m) = verdict {
            bad += 1;
            if bad <= 200 {
                out.push_str(&m.to_string());
                out.push('\n');
            }
        }
    });
    std::fs::write(&args[1], out).unwrap();
    println!("{}", json!({"cases": n, "mismatches": bad, "ops": ops, "distinct_layouts": layouts.len()}));
    0
}

/// xv bits-record <trace> <seed> <runs> <oplen>
/// Seeded long histories over 8 handles; after every operation the bits of every live handle.
pub fn cmd_record(args: &[String]) -> i32 {
    let seed: u64 = args[1].parse().unwrap_or(1);
    let runs: usize = args[2].parse().unwrap_or(50);
    let oplen: usize = args[3].parse().unwrap_or(30);
    let mut rng = Rng::new(seed);
    let mut trace = String::new();
    let mut events = 0usize;
    let nh = 8usize;
    for run in 0..runs {
        let mut t: Vec<Option<Bitstr>> = vec![None; nh];
        let emit = |trace: &mut String, op: &str, a: Value, t: &Vec<Option<Bitstr>>| {
            let live: Vec<u8> = t.iter().map(|h| if h.is_some() { 1 } else { 0 }).collect();
            let post: Vec<Value> = t.iter().map(|h| match h { Some(b) => bits_json(b), None => json!([]) }).collect();
            trace.push_str(&json!({"run": run, "op": op, "args": a, "live": live, "post": post}).to_string());
            trace.push('\n');
        };
        emit(&mut trace, "reset", json!({}), &t);
        // a panic inside an operation (or while a handle is rendered) ends the run with an event no action of the
        // specification explains
        let outcome = guarded(|| {
        for _ in 0..oplen {
            let live: Vec<usize> = (0..nh).filter(|i| t[*i].is_some()).collect();
            let free: Vec<usize> = (0..nh).filter(|i| t[*i].is_none()).collect();
            let choice = rng.below(14);
            if live.is_empty() || (choice == 0 && !free.is_empty()) {
                if free.is_empty() { continue; }
                let h = free[rng.below(free.len())];
                let nbytes = 1 + rng.below(6);
                let bytes: Vec<u8> = (0..nbytes).map(|_| *rng.pick(&[0x00u8, 0xff, 0xa5, 0x5a, 0x12, 0x80, 0x01])).collect();
                let bs = if rng.chance(1, 4) {
                    let leaked: &'static [u8] = Box::leak(bytes.clone().into_boxed_slice());
                    Bitstr::from(leaked)
                } else { Bitstr::from(bytes.clone()) };
                let bits: Vec<u8> = bs.bits().collect();
                t[h] = Some(bs);
                emit(&mut trace, "from", json!({"h": h + 1, "bits": bits}), &t);
                events += 1;
                continue;
            }
            let h = live[rng.below(live.len())];
            let len = t[h].as_ref().unwrap().len();
            let n = if rng.chance(1, 8) { len + 1 + rng.below(3) } else { rng.below(len + 1) };
            match choice {
                1 => { t[h] = None; emit(&mut trace, "drop", json!({"h": h + 1}), &t); }
                2 if !free.is_empty() => { let r = free[0]; t[r] = t[h].clone(); emit(&mut trace, "clone", json!({"h": h + 1, "r": r + 1}), &t); }
                3 | 4 if !free.is_empty() => {
                    let r = free[0];
                    match t[h].as_mut().unwrap().read(n) {
                        Some(x) => { t[r] = Some(x); emit(&mut trace, "read", json!({"h": h + 1, "r": r + 1, "n": n}), &t); }
                        None => emit(&mut trace, "failed", json!({"what": "read", "h": h + 1, "n": n}), &t),
                    }
                }
                5 if !free.is_empty() => {
                    let r = free[0];
                    match t[h].as_ref().unwrap().peek(n) {
                        Some(x) => { t[r] = Some(x); emit(&mut trace, "peek", json!({"h": h + 1, "r": r + 1, "n": n}), &t); }
                        None => emit(&mut trace, "failed", json!({"what": "peek", "h": h + 1, "n": n}), &t),
                    }
                }
                6 if !free.is_empty() => {
                    let r = free[0];
                    let st = t[h].as_ref().unwrap().start();
                    match t[h].as_ref().unwrap().seek(st + n) {
                        Some(x) => { t[r] = Some(x); emit(&mut trace, "seek", json!({"h": h + 1, "r": r + 1, "n": n}), &t); }
                        None => emit(&mut trace, "failed", json!({"what": "seek", "h": h + 1, "n": n}), &t),
                    }
                }
                7 if !free.is_empty() => {
                    let r = free[0];
                    let st = t[h].as_ref().unwrap().start();
                    let i = rng.below(len + 2);
                    let j = rng.below(len + 2);
                    match t[h].as_ref().unwrap().substr(st + i, st + j) {
                        Some(x) => { t[r] = Some(x); emit(&mut trace, "substr", json!({"h": h + 1, "r": r + 1, "i": i, "j": j}), &t); }
                        None => emit(&mut trace, "failed", json!({"what": "substr", "h": h + 1, "i": i, "j": j, "n": 0}), &t),
                    }
                }
                8 if free.len() >= 2 => {
                    let (r, r2) = (free[0], free[1]);
                    match t[h].as_ref().unwrap().split_at(n) {
                        Some((x, y)) => { t[r] = Some(x); t[r2] = Some(y); emit(&mut trace, "split", json!({"h": h + 1, "r": r + 1, "r2": r2 + 1, "n": n}), &t); }
                        None => emit(&mut trace, "failed", json!({"what": "split", "h": h + 1, "n": n}), &t),
                    }
                }
                9 | 10 if live.len() >= 2 => {
                    let tt = live[rng.below(live.len())];
                    if tt == h || len + t[tt].as_ref().unwrap().len() > 200 { continue; }
                    let tail = t[tt].take().unwrap();
                    let hh = t[h].take().unwrap();
                    t[h] = Some(hh.append(&tail));
                    t[tt] = Some(tail);
                    emit(&mut trace, "append", json!({"h": h + 1, "t": tt + 1}), &t);
                }
                11 if live.len() >= 2 => {
                    let tt = live[rng.below(live.len())];
                    if tt == h || len + t[tt].as_ref().unwrap().len() > 200 { continue; }
                    let tail = t[tt].take().unwrap();
                    let hh = t[h].take().unwrap();
                    let keep = hh.clone();
                    match hh.insert(n, &tail) {
                        Some(x) => { t[h] = Some(x); t[tt] = Some(tail); drop(keep); emit(&mut trace, "insert", json!({"h": h + 1, "t": tt + 1, "k": n}), &t); }
                        None => { t[h] = Some(keep); t[tt] = Some(tail); emit(&mut trace, "failed", json!({"what": "insert", "h": h + 1, "n": n}), &t); }
                    }
                }
                12 => { let hh = t[h].take().unwrap(); t[h] = Some(hh.invert()); emit(&mut trace, "invert", json!({"h": h + 1}), &t); }
                13 => { let hh = t[h].take().unwrap(); t[h] = Some(hh.detach()); emit(&mut trace, "detach", json!({"h": h + 1}), &t); }
                _ => continue,
            }
            events += 1;
        }
        });
        if let Outcome::Panic(m) = outcome {
            trace.push_str(&json!({"run": run, "op": "panic", "args": {"msg": m}, "live": [], "post": []}).to_string());
            trace.push('\n');
            events += 1;
        }
    }
    std::fs::write(&args[0], trace).unwrap();
    println!("{}", json!({"runs": runs, "events": events}));
    0
}
