//! Seeded program generators (filled in per family).
