//! Seeded generators of xeh programs over (nearly) the whole dictionary.
//!
//! The generator simulates an abstract type stack so that most generated words find operands
//! of a plausible type (otherwise almost every program would die on its first word), wraps
//! code into every control structure of the language, defines and calls words, uses locals,
//! globals, vector/map builders, meta blocks, tags and the binary-parsing cursor.  A small
//! fraction of tokens is drawn blindly from the dictionary so that failing paths are reached.
//!
//! Excluded by the properties' own quantifiers: random, random-bits, read-all, write-all,
//! exec-piped, include, require (non-deterministic or external), exit.
use crate::Rng;

#[derive(Clone, Copy, PartialEq, Debug)]
pub enum T {
    Int,
    Flag,
    Strr,
    Vect,
    Mapp,
    Bits,
    Nil,
    Real,
    Any,
}
use T::*;

pub struct Sig {
    pub name: &'static str,
    pub ins: &'static [T],
    pub outs: &'static [T],
}

macro_rules! sig {
    ($n:expr, [$($i:expr),*], [$($o:expr),*]) => {
        Sig { name: $n, ins: &[$($i),*], outs: &[$($o),*] }
    };
}

/// Signatures of the words the generator uses deliberately (inputs: deepest first).
pub const SIGS: &[Sig] = &[
    sig!("dup", [Any], [Any, Any]),
    sig!("drop", [Any], []),
    sig!("swap", [Any, Any], [Any, Any]),
    sig!("over", [Any, Any], [Any, Any, Any]),
    sig!("rot", [Any, Any, Any], [Any, Any, Any]),
    sig!("depth", [], [Int]),
    sig!("+", [Int, Int], [Int]),
    sig!("-", [Int, Int], [Int]),
    sig!("*", [Int, Int], [Int]),
    sig!("/", [Int, Int], [Int]),
    sig!("rem", [Int, Int], [Int]),
    sig!("+", [Real, Real], [Real]),
    sig!("*", [Real, Real], [Real]),
    sig!("neg", [Int], [Int]),
    sig!("abs", [Int], [Int]),
    sig!("min", [Int, Int], [Int]),
    sig!("max", [Int, Int], [Int]),
    sig!("<", [Int, Int], [Flag]),
    sig!("<=", [Int, Int], [Flag]),
    sig!(">", [Int, Int], [Flag]),
    sig!(">=", [Int, Int], [Flag]),
    sig!("==", [Int, Int], [Flag]),
    sig!("<>", [Int, Int], [Flag]),
    sig!("and", [Flag, Flag], [Flag]),
    sig!("or", [Flag, Flag], [Flag]),
    sig!("xor", [Flag, Flag], [Flag]),
    sig!("not", [Flag], [Flag]),
    sig!("band", [Int, Int], [Int]),
    sig!("bor", [Int, Int], [Int]),
    sig!("bxor", [Int, Int], [Int]),
    sig!("bnot", [Int], [Int]),
    sig!("popcnt", [Int], [Int]),
    sig!(">real", [Int], [Real]),
    sig!(">int", [Real], [Int]),
    sig!("round", [Real], [Real]),
    sig!("zero?", [Int], [Flag]),
    sig!("positive?", [Int], [Flag]),
    sig!("negative?", [Int], [Flag]),
    sig!("equal?", [Any, Any], [Flag]),
    sig!("nil?", [Any], [Flag]),
    sig!("int?", [Any], [Flag]),
    sig!("str?", [Any], [Flag]),
    sig!("vec?", [Any], [Flag]),
    sig!("bitstr?", [Any], [Flag]),
    sig!("bool?", [Any], [Flag]),
    sig!("real?", [Any], [Flag]),
    sig!("length", [Vect], [Int]),
    sig!("length", [Strr], [Int]),
    sig!("length", [Bits], [Int]),
    sig!("reverse", [Vect], [Vect]),
    sig!("sort", [Vect], [Vect]),
    sig!("push", [Any, Vect], [Vect]),
    sig!("unbox", [Vect], []),
    sig!("concat", [Vect], [Strr]),
    sig!("join", [Vect, Strr], [Strr]),
    sig!("insert", [Mapp, Any, Any], [Mapp]),
    sig!("remove", [Mapp, Any], [Mapp]),
    sig!("get", [Mapp, Any], [Any]),
    sig!("tags", [Any], [Any]),
    sig!("insert-tag", [Any, Any, Any], [Any]),
    sig!("remove-tag", [Any, Any], [Any]),
    sig!("get-tag", [Any, Any], [Any]),
    sig!("with-tags", [Any, Mapp], [Any]),
    sig!("print", [Any], []),
    sig!("println", [Any], []),
    sig!("newline", [], []),
    sig!(".s", [], []),
    sig!("bitstr-len", [Bits], [Int]),
    sig!("bitstr-append", [Bits, Bits], [Bits]),
    sig!("bitstr-not", [Bits], [Bits]),
    sig!("bitstr-and", [Bits, Bits], [Bits]),
    sig!("bitstr-or", [Bits, Bits], [Bits]),
    sig!("bitstr-xor", [Bits, Bits], [Bits]),
    sig!("bitstr>hex", [Bits], [Strr]),
    sig!("hex>bitstr", [Strr], [Bits]),
    sig!(">bitstr", [Vect], [Bits]),
    sig!(">bitstr", [Strr], [Bits]),
    sig!("base64", [Bits], [Strr]),
    sig!("base32", [Bits], [Strr]),
    sig!("zero85", [Bits], [Strr]),
    sig!("base64>", [Strr], [Any]),
    sig!("base32>", [Strr], [Any]),
    sig!("str>number", [Strr], [Int]),
    sig!("u8!", [Int], [Bits]),
    sig!("i16!", [Int], [Bits]),
    sig!("u32be!", [Int], [Bits]),
    sig!("u16le!", [Int], [Bits]),
    sig!("f64!", [Real], [Bits]),
    sig!("big", [], []),
    sig!("little", [], []),
    sig!("remain", [], [Int]),
    sig!("offset", [], [Int]),
    sig!("input", [], [Bits]),
    sig!("u8", [], [Int]),
    sig!("i8", [], [Int]),
    sig!("u16", [], [Int]),
    sig!("u16be", [], [Int]),
    sig!("i32le", [], [Int]),
    sig!("nulbytestr", [], [Bits]),
    sig!("emit", [Bits], []),
    sig!(">b", [Int], [Int]),
];

pub struct Gen {
    pub rng: Rng,
    pub dict: Vec<String>,
    defs: Vec<String>,
    vars: Vec<String>,
    nfun: usize,
    nvar: usize,
    pub all_words: bool,
    pub with_cursor: bool,
    pub with_meta: bool,
}

const EXCLUDED: &[&str] = &[
    "random", "random-bits", "read-all", "write-all", "exec-piped", "include", "require", "exit",
    "see", "dump", "dump-at",
];

impl Gen {
    pub fn new(seed: u64, dict: Vec<String>) -> Gen {
        let dict = dict.into_iter().filter(|w| !EXCLUDED.contains(&w.as_str())).collect();
        Gen { rng: Rng::new(seed), dict, defs: vec![], vars: vec![], nfun: 0, nvar: 0, all_words: true, with_cursor: true, with_meta: true }
    }

    fn small_int(&mut self) -> String {
        let r = self.rng.below(20);
        match r {
            0 => "-1".into(),
            1 => "255".into(),
            2 => "0x10".into(),
            3 => "1000".into(),
            _ => format!("{}", self.rng.below(6)),
        }
    }

    fn literal(&mut self, out: &mut Vec<String>, st: &mut Vec<T>) {
        match self.rng.below(14) {
            0..=5 => {
                out.push(self.small_int());
                st.push(Int);
            }
            6 => {
                out.push(if self.rng.chance(1, 2) { "true".into() } else { "false".into() });
                st.push(Flag);
            }
            7 => {
                out.push(format!("\"{}\"", self.rng.pick(&["a", "", "xeh", "0f", "b c"])));
                st.push(Strr);
            }
            8 => {
                out.push(self.rng.pick(&["|ff|", "|0a 1b|", "| |", "|x.x|", "|12 34 56|", "|7|"]).to_string());
                st.push(Bits);
            }
            9 => {
                out.push(self.rng.pick(&["1.5", "0.0", "-2.25", "100.0"]).to_string());
                st.push(Real);
            }
            10 => {
                out.push("nil".into());
                st.push(Nil);
            }
            11 => {
                out.push("[".into());
                for _ in 0..self.rng.below(4) {
                    out.push(self.small_int());
                }
                out.push("]".into());
                st.push(Vect);
            }
            12 => {
                out.push("{".into());
                for _ in 0..self.rng.below(3) {
                    out.push(self.small_int());
                    out.push(format!("\"k{}\"", self.rng.below(3)));
                }
                out.push("}".into());
                st.push(Mapp);
            }
            _ => {
                out.push(self.small_int());
                st.push(Int);
            }
        }
    }

    fn matches(sig: &Sig, st: &[T]) -> bool {
        if st.len() < sig.ins.len() {
            return false;
        }
        let base = st.len() - sig.ins.len();
        sig.ins.iter().enumerate().all(|(i, t)| *t == Any || st[base + i] == *t || st[base + i] == Any)
    }

    fn word(&mut self, out: &mut Vec<String>, st: &mut Vec<T>) {
        let cands: Vec<&Sig> = SIGS
            .iter()
            .filter(|s| Self::matches(s, st))
            .filter(|s| self.with_cursor || !matches!(s.name, "u8" | "i8" | "u16" | "u16be" | "i32le" | "nulbytestr" | "remain" | "offset" | "input" | "emit"))
            .collect();
        if cands.is_empty() {
            self.literal(out, st);
            return;
        }
        let s = cands[self.rng.below(cands.len())];
        out.push(s.name.to_string());
        for _ in 0..s.ins.len() {
            st.pop();
        }
        for t in s.outs {
            st.push(*t);
        }
        if s.name == "unbox" {
            st.push(Any);
        }
    }

    fn ensure_flag(&mut self, out: &mut Vec<String>, st: &mut Vec<T>) {
        if st.last() == Some(&Flag) {
            return;
        }
        match self.rng.below(3) {
            0 => {
                out.push(if self.rng.chance(1, 2) { "true".into() } else { "false".into() });
            }
            1 => {
                out.push(self.small_int());
                out.push(self.small_int());
                out.push((*self.rng.pick(&["<", "==", ">="])).to_string());
            }
            _ => {
                out.push("depth".into());
                out.push(self.small_int());
                out.push(">".into());
            }
        }
        st.push(Flag);
    }

    /// Emit a sequence of roughly `budget` tokens.
    pub fn seq(&mut self, budget: usize, depth: usize, out: &mut Vec<String>, st: &mut Vec<T>, in_def: bool, in_loop: bool, locals: &mut Vec<String>) {
        let start = out.len();
        while out.len() - start < budget {
            let r = self.rng.below(100);
            let left = budget.saturating_sub(out.len() - start);
            if r < 22 {
                self.literal(out, st);
            } else if r < 62 {
                self.word(out, st);
            } else if r < 68 && depth < 5 && left > 4 {
                // if / else / then
                self.ensure_flag(out, st);
                st.pop();
                out.push("if".into());
                let mut s1 = st.clone();
                self.seq(left / 3, depth + 1, out, &mut s1, in_def, in_loop, locals);
                if self.rng.chance(1, 2) {
                    out.push("else".into());
                    let mut s2 = st.clone();
                    self.seq(left / 3, depth + 1, out, &mut s2, in_def, in_loop, locals);
                }
                out.push("then".into());
                *st = s1;
            } else if r < 73 && depth < 4 && left > 5 {
                // counted loop
                let n = self.rng.below(4);
                let s = self.rng.below(2);
                out.push(format!("{}", n));
                out.push(format!("{}", s));
                out.push("do".into());
                let mut s1 = st.clone();
                if self.rng.chance(2, 3) {
                    out.push((*self.rng.pick(&["I", "I", "J"])).to_string());
                    s1.push(Int);
                }
                self.seq(left / 3, depth + 1, out, &mut s1, in_def, true, locals);
                out.push("loop".into());
            } else if r < 76 && depth < 4 && left > 6 {
                // begin ... until with a counter
                out.push("0".into());
                out.push("begin".into());
                out.push("1".into());
                out.push("+".into());
                let mut s1 = st.clone();
                s1.push(Int);
                self.seq(left / 4, depth + 1, out, &mut s1, in_def, false, locals);
                while s1.len() > st.len() + 1 {
                    out.push("drop".into());
                    s1.pop();
                }
                if s1.len() == st.len() + 1 {
                    out.push("dup".into());
                    out.push(format!("{}", 1 + self.rng.below(3)));
                    out.push(">=".into());
                    out.push("until".into());
                    out.push("drop".into());
                } else {
                    out.push("true".into());
                    out.push("until".into());
                }
            } else if r < 79 && depth < 4 && left > 8 {
                // begin .. while .. repeat (with an optional break)
                out.push("0".into());
                out.push("begin".into());
                out.push("dup".into());
                out.push(format!("{}", 1 + self.rng.below(3)));
                out.push("<".into());
                out.push("while".into());
                out.push("1".into());
                out.push("+".into());
                if self.rng.chance(1, 3) {
                    out.push("dup".into());
                    out.push("2".into());
                    out.push("==".into());
                    out.push("if".into());
                    out.push("break".into());
                    out.push("then".into());
                }
                out.push("repeat".into());
                st.push(Int);
            } else if r < 82 && depth < 4 && left > 8 {
                // case
                out.push(self.small_int());
                out.push("case".into());
                for _ in 0..(1 + self.rng.below(2)) {
                    out.push(self.small_int());
                    out.push("of".into());
                    let mut s1 = st.clone();
                    self.seq(2, depth + 1, out, &mut s1, in_def, in_loop, locals);
                    out.push("endof".into());
                }
                out.push("drop".into());
                out.push("endcase".into());
            } else if r < 85 && !in_def && depth == 0 && left > 6 {
                // definition
                let name = format!("f{}", self.nfun);
                self.nfun += 1;
                out.push(":".into());
                out.push(name.clone());
                let mut s1: Vec<T> = vec![];
                let mut l1: Vec<String> = vec![];
                if self.rng.chance(1, 2) {
                    // recursion guard: only non-recursive bodies, but may call earlier words
                }
                self.seq(left / 2, depth + 1, out, &mut s1, true, false, &mut l1);
                if self.rng.chance(1, 8) {
                    // a user-defined immediate word: later uses run while the source is being compiled
                    out.push("immediate".into());
                }
                out.push(";".into());
                self.defs.push(name);
            } else if r < 88 && !self.defs.is_empty() {
                let name = self.defs[self.rng.below(self.defs.len())].clone();
                out.push(name);
                st.push(Any);
            } else if r < 90 && in_def && !st.is_empty() {
                let name = format!("l{}", locals.len());
                out.push("local".into());
                out.push(name.clone());
                st.pop();
                locals.push(name);
            } else if r < 92 && in_def && !locals.is_empty() {
                let name = locals[self.rng.below(locals.len())].clone();
                out.push(name);
                st.push(Any);
            } else if r < 94 && !in_def && depth == 0 && !st.is_empty() {
                let name = format!("v{}", self.nvar);
                self.nvar += 1;
                out.push("var".into());
                out.push(name.clone());
                st.pop();
                self.vars.push(name);
            } else if r < 96 && !self.vars.is_empty() {
                let name = self.vars[self.rng.below(self.vars.len())].clone();
                if self.rng.chance(1, 6) {
                    // store back a value that is equal but not identical (other tags): the cell changes all the same
                    out.push(name.clone());
                    out.push(["1 \"k\" insert-tag", "{ } with-tags", "{ 2 \"j\" } with-tags", "\"k\" remove-tag"][self.rng.below(4)].into());
                    out.push("!".into());
                    out.push(name);
                } else if !st.is_empty() && self.rng.chance(1, 2) {
                    out.push("!".into());
                    out.push(name);
                    st.pop();
                } else {
                    out.push(name);
                    st.push(Any);
                }
            } else if r < 97 && depth < 3 && left > 5 {
                // vector builder with computed contents, then foreach
                out.push("[".into());
                let mut s1: Vec<T> = vec![];
                for _ in 0..(1 + self.rng.below(3)) {
                    self.literal(out, &mut s1);
                }
                out.push("]".into());
                if self.rng.chance(1, 2) {
                    out.push("foreach".into());
                    out.push("I".into());
                    let mut s2 = st.clone();
                    s2.push(Any);
                    self.seq(2, depth + 1, out, &mut s2, in_def, true, locals);
                    out.push("loop".into());
                } else {
                    st.push(Vect);
                }
            } else if r < 98 && self.with_meta && depth < 2 && left > 4 {
                out.push("#(".into());
                out.push(self.small_int());
                out.push(self.small_int());
                out.push((*self.rng.pick(&["+", "*", "-"])).to_string());
                out.push("#)".into());
                st.push(Int);
            } else if r < 99 && self.with_cursor && depth < 2 && left > 6 {
                out.push((*self.rng.pick(&["|01 02 03 04 05|", "|ff 00 41 00|", "|7 12 3|"])).to_string());
                out.push("open-bitstr".into());
                for _ in 0..(1 + self.rng.below(3)) {
                    match self.rng.below(4) {
                        0 => {
                            out.push(format!("{}", self.rng.below(12)));
                            out.push("uint".into());
                            st.push(Int);
                        }
                        1 => {
                            out.push("u8".into());
                            st.push(Int);
                        }
                        2 => {
                            out.push(format!("{}", self.rng.below(9)));
                            out.push("bits".into());
                            st.push(Bits);
                        }
                        _ => {
                            out.push(format!("{}", self.rng.below(20)));
                            out.push("seek".into());
                        }
                    }
                }
                out.push("close-bitstr".into());
            } else if self.all_words && !self.dict.is_empty() {
                // a blind pick from the dictionary (failing paths, odd operand types)
                let w = self.dict[self.rng.below(self.dict.len())].clone();
                if !STRUCTURAL.contains(&w.as_str()) {
                    out.push(w);
                    st.clear();
                }
            } else {
                self.word(out, st);
            }
        }
    }

    pub fn program(&mut self, budget: usize) -> String {
        self.defs.clear();
        self.vars.clear();
        self.nfun = 0;
        self.nvar = 0;
        let mut out = vec![];
        let mut st = vec![];
        let mut locals = vec![];
        self.seq(budget, 0, &mut out, &mut st, false, false, &mut locals);
        out.join(" ")
    }
}

/// Words whose blind insertion would unbalance the program structure.
pub const STRUCTURAL: &[&str] = &[
    "if", "else", "then", "case", "of", "endof", "endcase", "begin", "while", "until", "repeat", "break",
    "[", "]", "{", "}", ":", ";", "late", "immediate", "local", "var", "!", "#(", "#)", "~)", "const", "do", "loop",
    "foreach", "defined", "let", "^{", "^}", "enum", "endenum", "<name>", "include", "require", "see",
];
