//! C10: a source that fails to build has no effect on anything submitted afterwards.
//! Twin runs:  A = h1 . bad . probes   versus   B = h1 . probes.
use crate::*;
use serde_json::{json, Value};

fn words(v: &Value) -> String {
    v.as_array().map(|a| a.iter().map(|x| x.as_str().unwrap_or("")).collect::<Vec<_>>().join(" ")).unwrap_or_default()
}

pub fn submit(xs: &mut Xstate, src: &str, style: &str) -> Outcome<Result<(), Xerr>> {
    guarded(|| if style == "eval" { xs.eval(src) } else { xs.compile(src).and_then(|_| xs.run()) })
}

fn obs(xs: &mut Xstate, r: &Outcome<Result<(), Xerr>>) -> Value {
    let out = xs.read_stdout().unwrap_or_default();
    match r {
        Outcome::Panic(_) => json!({"err": "panic"}),
        Outcome::Done(r) => json!({
            "err": match r { Ok(()) => "none", Err(e) => err_class(e) },
            "vis": stack_json(xs),
            "out": out,
        }),
    }
}

fn shape(xs: &Xstate) -> Value {
    let d = xs.verif_dump();
    json!({"mode": d.ctx.mode, "nest": d.nested.len(), "flow": d.flow.len(), "inputs": d.inputs.len()})
}

fn spec_obs(v: &Value) -> Value {
    let out: String = v["out"].as_array().map(|a| a.iter().map(|x| x.as_str().unwrap_or("")).collect()).unwrap_or_default();
    json!({"err": v["err"], "vis": v["vis"], "out": out})
}

/// One submission in the role it plays in a scenario.  Styles beyond eval / repl (compile then run):
///  "defer": the earlier source and the rejected one are only compiled; `run` comes afterwards (see judge)
///  "step":  the failing source is compiled and single-stepped until it fails
fn submit_as(xs: &mut Xstate, src: &str, style: &str, role: &str) -> Outcome<Result<(), Xerr>> {
    match (style, role) {
        ("defer", "h1") | ("defer", "middle") => guarded(|| xs.compile(src)),
        ("step", "middle") => guarded(|| {
            xs.compile(src)?;
            let mut k = 0;
            while xs.is_running() && k < 5000 { xs.next()?; k += 1; }
            Ok(())
        }),
        ("eval", _) => submit(xs, src, "eval"),
        _ => submit(xs, src, "repl"),
    }
}

pub fn judge(case: &Value) -> Option<Value> {
    let verdict = case["verdict"].as_str().unwrap_or("");
    if verdict.starts_with("skip") {
        return None;
    }
    let style = case["style"].as_str().unwrap_or("eval");
    let h1 = words(&case["h1"]);
    let middle = words(&case["middle"]);
    let probes: Vec<String> = case["probes"].as_array().map(|a| a.iter().map(words).collect()).unwrap_or_default();
    let mut why: Vec<String> = vec![];
    let mut a = fresh();
    let mut b = fresh();
    for xs in [&mut a, &mut b] {
        if !h1.is_empty() {
            let _ = submit_as(xs, &h1, style, "h1");
            xs.read_stdout();
        }
    }
    let shape0 = shape(&a);
    let vis0 = stack_json(&a);
    let rbad = submit_as(&mut a, &middle, style, "middle");
    a.read_stdout();
    match &rbad {
        Outcome::Done(Ok(())) => why.push("the middle source was not rejected".into()),
        Outcome::Panic(_) => return None,
        _ => {}
    }
    let shape1 = shape(&a);
    if shape1 != shape0 {
        why.push(format!("mode / nesting / pending flow / pending input after the failed source: {} (before: {})", shape1, shape0));
    }
    if case["kind"] == "build" && stack_json(&a) != vis0 {
        why.push("values on the data stack are no longer reachable (or new ones appeared) after the rejected source".into());
    }
    let mut oa = vec![];
    let mut ob = vec![];
    let mut limited = false;
    if style == "defer" {
        // now the code compiled before the rejected source arrived is run
        let ra = guarded(|| a.run());
        oa.push(obs(&mut a, &ra));
        let rb = guarded(|| b.run());
        ob.push(obs(&mut b, &rb));
    }
    for p in &probes {
        let ra = submit_as(&mut a, p, style, "probe");
        let xa = obs(&mut a, &ra);
        let rb = submit_as(&mut b, p, style, "probe");
        let xb = obs(&mut b, &rb);
        if xa["err"] == "Limit" || xb["err"] == "Limit" {
            limited = true; // cumulative instruction meter: not judged from here on
            break;
        }
        oa.push(xa);
        ob.push(xb);
    }
    if case["kind"] == "build" && oa != ob {
        why.push("a follow-up source behaves differently than if the rejected source had never been submitted".into());
    }
    let pred: Vec<Value> = case["with"].as_array().map(|a| a.iter().map(spec_obs).collect()).unwrap_or_default();
    let pred: Vec<Value> = if limited { pred.into_iter().take(oa.len()).collect() } else { pred };
    if oa != pred && !oa.iter().any(|o| o["err"] == "panic") {
        why.push("follow-up sources do not behave as the design predicts".into());
    }
    if why.is_empty() {
        None
    } else {
        Some(json!({"style": style, "h1": h1, "middle": middle, "probes": probes, "why": why, "kind": case["kind"],
                    "with_bad": oa, "without_bad": ob, "predicted": pred}))
    }
}

/// xv twin-replay <cases> <mismatches>
pub fn cmd_replay(args: &[String]) -> i32 {
    let cases = read_lines(&args[0]);
    let mut out = String::new();
    let mut bad = 0usize;
    let mut judged = 0usize;
    for c in &cases {
        if !c["verdict"].as_str().unwrap_or("").starts_with("skip") {
            judged += 1;
        }
        if let Some(m) = judge(c) {
            bad += 1;
            out.push_str(&m.to_string());
            out.push('\n');
        }
    }
    std::fs::write(&args[1], out).unwrap();
    println!("{}", json!({"cases": cases.len(), "judged": judged, "mismatches": bad}));
    0
}

fn corrupt(rng: &mut Rng, src: &str) -> String {
    let mut toks: Vec<String> = src.split(' ').map(|s| s.to_string()).collect();
    let pos = rng.below(toks.len() + 1);
    let bad = match rng.below(12) {
        // text injected by a meta block: the failing token is inside it, the submitted source has text left to read
        9 => "#( \"7 foo_unknown\" ~)".to_string(),
        10 => "#( \"1 then 2\" ~)".to_string(),
        11 => "#( \": zz 1\" ~) 2d".to_string(),
        0 => "foo_unknown".to_string(),
        1 => "2d".to_string(),
        2 => "then".to_string(),
        3 => "]".to_string(),
        4 => "#)".to_string(),
        5 => "\"unterminated".to_string(),
        6 => "#( 1 0 / #)".to_string(),
        7 => "loop".to_string(),
        _ => "|zz|".to_string(),
    };
    toks.insert(pos, bad);
    toks.join(" ")
}

/// xv twin-record <trace> <side> <seed> <n> <budget>
pub fn cmd_record(args: &[String]) -> i32 {
    let seed: u64 = args[2].parse().unwrap_or(1);
    let n: usize = args[3].parse().unwrap_or(100);
    let budget: usize = args[4].parse().unwrap_or(20);
    let dict: Vec<String> = fresh().word_list().iter().map(|s| s.to_string()).collect();
    let mut g = gen::Gen::new(seed, dict);
    g.all_words = false;
    let mut rng = Rng::new(seed ^ 0x77);
    let mut trace = String::new();
    let mut side = String::new();
    let mut judged = 0usize;
    let mut events = 0usize;
    for i in 0..n {
        let style = if rng.chance(1, 2) { "eval" } else { "repl" };
        let h1 = g.program(4 + rng.below(budget));
        let base = g.program(4 + rng.below(budget));
        let bad = corrupt(&mut rng, &base);
        let probes: Vec<String> = (0..(1 + rng.below(3))).map(|_| {
            match rng.below(6) {
                0 => "depth".to_string(),
                1 => "9 var zz zz".to_string(),
                2 => ": pf 1 2 + ; pf".to_string(),
                3 => "true if 3 then [ 1 2 ] length".to_string(),
                _ => g.program(4 + rng.below(budget)),
            }
        }).collect();
        let mut a = fresh();
        let mut b = fresh();
        let _ = submit(&mut a, &h1, style);
        let _ = submit(&mut b, &h1, style);
        a.read_stdout();
        b.read_stdout();
        // is `bad` rejected while it is read / compiled?  (compile executes nothing but meta blocks)
        let mut probe_state = a.clone();
        let build_fails = matches!(guarded(|| probe_state.compile(&bad)), Outcome::Done(Err(_)));
        if !build_fails {
            continue;
        }
        let shape0 = shape(&a);
        let rbad = submit(&mut a, &bad, style);
        a.read_stdout();
        if !matches!(rbad, Outcome::Done(Err(_))) {
            continue;
        }
        judged += 1;
        let mut detail = vec![];
        // event pair 0: shape and visible stack right after the rejected source
        let oa = json!({"shape": shape(&a), "vis": stack_json(&a)});
        let ob = json!({"shape": shape0, "vis": stack_json(&b)});
        trace.push_str(&json!({"run": i * 10, "twin": "A", "o": fnv(&oa.to_string())}).to_string());
        trace.push('\n');
        trace.push_str(&json!({"run": i * 10, "twin": "B", "o": fnv(&ob.to_string())}).to_string());
        trace.push('\n');
        detail.push(json!({"after_bad": oa, "before_bad": ob}));
        for (k, p) in probes.iter().enumerate() {
            let ra = submit(&mut a, p, style);
            let oa = obs(&mut a, &ra);
            let rb = submit(&mut b, p, style);
            let ob = obs(&mut b, &rb);
            // the instruction meter is cumulative: a rejected source whose meta blocks ran has used part of the budget,
            // so a probe that runs into the limit stops elsewhere - resource accounting, not an effect of the rejected text
            if oa["err"] == "Limit" || ob["err"] == "Limit" {
                break;
            }
            trace.push_str(&json!({"run": i * 10 + k + 1, "twin": "A", "o": fnv(&oa.to_string())}).to_string());
            trace.push('\n');
            trace.push_str(&json!({"run": i * 10 + k + 1, "twin": "B", "o": fnv(&ob.to_string())}).to_string());
            trace.push('\n');
            events += 2;
            detail.push(json!({"probe": p, "A": oa, "B": ob}));
        }
        side.push_str(&json!({"run": i, "style": style, "h1": h1, "bad": bad, "probes": probes, "detail": detail}).to_string());
        side.push('\n');
    }
    std::fs::write(&args[0], trace).unwrap();
    std::fs::write(&args[1], side).unwrap();
    println!("{}", json!({"runs": n, "judged": judged, "events": events}));
    0
}

// ------------------------------------------------------------------ C11: meta block vs inlined value
fn run_pair(prior: &str, src: &str, style: &str) -> (Value, Xstate) {
    let mut xs = fresh();
    if !prior.is_empty() {
        let _ = submit(&mut xs, prior, style);
        xs.read_stdout();
    }
    let r = submit(&mut xs, src, style);
    let o = obs(&mut xs, &r);
    (o, xs)
}

fn user_vars(xs: &Xstate) -> Value {
    let base = fresh().verif_dump().heap.len();
    Value::Array(xs.verif_dump().heap.iter().skip(base).map(cell_json).collect())
}

pub fn judge_meta(case: &Value) -> Option<Value> {
    if case["skip"] == 1 {
        return None;
    }
    let style = case["style"].as_str().unwrap_or("eval");
    let prior = words(&case["prior"]);
    let with = words(&case["with"]);
    let inl = words(&case["inl"]);
    let mut why: Vec<String> = vec![];
    let (ow, xw) = run_pair(&prior, &with, style);
    if ow["err"] == "panic" {
        return None;
    }
    let pred_out: String = case["wout"].as_array().map(|a| a.iter().map(|x| x.as_str().unwrap_or("")).collect()).unwrap_or_default();
    let pred = json!({"err": case["werr"], "vis": case["wvis"], "out": pred_out});
    if ow != pred {
        why.push("the program with the meta block does not behave as the design predicts".into());
    }
    if case["eok"] == 1 {
        let (oi, xi) = run_pair(&prior, &inl, style);
        if ow != oi || user_vars(&xw) != user_vars(&xi) {
            why.push("the program with the meta block differs from the program with the block's value written out".into());
        }
        // only constants defined by the block remain
        let before: std::collections::HashSet<String> = {
            let mut xs = fresh();
            if !prior.is_empty() {
                let _ = submit(&mut xs, &prior, style);
            }
            xs.word_list().iter().map(|s| s.to_string()).collect()
        };
        let after_i: std::collections::HashSet<String> = xi.word_list().iter().map(|s| s.to_string()).collect();
        let consts: std::collections::HashSet<String> = case["consts"].as_array().map(|a| a.iter().map(|x| x.as_str().unwrap_or("").to_string()).collect()).unwrap_or_default();
        for w in xw.word_list().iter() {
            let w = w.to_string();
            if !before.contains(&w) && !after_i.contains(&w) && !consts.contains(&w) {
                why.push(format!("`{}` defined inside the meta block is still in the dictionary", w));
            }
        }
        // compile executes nothing outside the meta blocks
        let mut xs = fresh();
        if !prior.is_empty() {
            let _ = submit(&mut xs, &prior, style);
            xs.read_stdout();
        }
        let vis0 = stack_json(&xs);
        let vars0 = user_vars(&xs);
        if let Outcome::Done(Ok(())) = guarded(|| xs.compile(&with)) {
            let vars1 = user_vars(&xs);
            let n0 = vars0.as_array().map(|a| a.len()).unwrap_or(0);
            let same_prefix = vars1.as_array().map(|a| a.len() >= n0 && Value::Array(a[..n0].to_vec()) == vars0).unwrap_or(false);
            if stack_json(&xs) != vis0 || !same_prefix || !xs.read_stdout().unwrap_or_default().is_empty() {
                why.push("compiling the source changed the data stack, a variable or printed something".into());
            }
        }
    } else {
        // a failing block rejects the whole source and touches nothing outside
        if ow["err"] == "none" {
            why.push("a source whose meta block fails was accepted".into());
        }
    }
    if why.is_empty() {
        None
    } else {
        Some(json!({"style": style, "prior": prior, "with": with, "inlined": inl, "why": why, "observed": ow, "predicted": pred}))
    }
}

/// xv meta-replay <cases> <mismatches>
pub fn cmd_meta_replay(args: &[String]) -> i32 {
    let cases = read_lines(&args[0]);
    let mut out = String::new();
    let mut bad = 0usize;
    let mut judged = 0usize;
    for c in &cases {
        if c["skip"] != 1 {
            judged += 1;
        }
        if let Some(m) = judge_meta(c) {
            bad += 1;
            out.push_str(&m.to_string());
            out.push('\n');
        }
    }
    std::fs::write(&args[1], out).unwrap();
    println!("{}", json!({"cases": cases.len(), "judged": judged, "mismatches": bad}));
    0
}

fn lit_text(c: &Cell) -> Option<String> {
    Some(match c {
        Cell::Nil => "nil".into(),
        Cell::Flag(b) => if *b { "true".into() } else { "false".into() },
        Cell::Int(i) => format!("{}", i),
        Cell::Real(r) => {
            if !r.is_finite() {
                return None;
            }
            format!("{:?}", r)
        }
        Cell::Str(s) => {
            if s.chars().any(|c| c == '"' || c == '\\' || c == '\n' || c == '\r' || c == '\t') {
                return None;
            }
            format!("\"{}\"", s)
        }
        Cell::Vector(v) => {
            let mut parts = vec!["[".to_string()];
            for x in v.iter() {
                parts.push(lit_text(x)?);
            }
            parts.push("]".into());
            parts.join(" ")
        }
        Cell::Bitstr(_) => format!("{:?}", c),
        _ => return None,
    })
}

/// xv meta-record <trace> <side> <seed> <n> <budget>
pub fn cmd_meta_record(args: &[String]) -> i32 {
    let seed: u64 = args[2].parse().unwrap_or(1);
    let n: usize = args[3].parse().unwrap_or(100);
    let budget: usize = args[4].parse().unwrap_or(12);
    let dict: Vec<String> = fresh().word_list().iter().map(|s| s.to_string()).collect();
    let mut g = gen::Gen::new(seed, dict);
    g.all_words = false;
    g.with_cursor = false;
    let mut rng = Rng::new(seed ^ 0x1111);
    let positions: [(&str, &str); 7] = [
        ("9", ""), ("[ 8", "]"), (": mf 6", "; mf mf"), ("true if", "then 4"), ("2 0 do", "loop"),
        ("1 case 1 of", "endof endcase"), ("0 begin 1 +", "drop dup 2 >= until"),
    ];
    let mut trace = String::new();
    let mut side = String::new();
    let mut judged = 0usize;
    let mut multi = 0usize;
    for i in 0..n {
        // now and then an expression whose value carries tags: the block must hand the tags through
        let tagged_e = ["5 1 \"k\" insert-tag", "\"s\" { 2 \"j\" } with-tags", "nil 1 \"k\" insert-tag", "[ 1 ] 1 \"k\" insert-tag", "255 ^hex", "7 { } with-tags"];
        let use_tagged = i % 9 == 4;
        let e = if use_tagged { tagged_e[rng.below(tagged_e.len())].to_string() } else { g.program(2 + rng.below(budget)) };
        // the value(s) e evaluates to, on a fresh interpreter
        let mut xe = fresh();
        let ok = matches!(guarded(|| xe.eval(&e)), Outcome::Done(Ok(())));
        if !ok || !xe.read_stdout().unwrap_or_default().is_empty() {
            continue;
        }
        if e.contains("var ") || e.contains("emit") || e.contains(" big") || e.starts_with("big") || e.contains("little") {
            continue; // needs the heap: refused in meta mode by design
        }
        if e.contains("immediate") {
            continue; // the property quantifies over programs without user-defined immediate words
        }
        if e.contains("#(") {
            // a block inside the block under test shares its stack (same mode; pinned by test_meta_meta): it sees values
            // the outer block has computed so far.  The enumerated part (MC_C11) judges nesting with its exact rule.
            continue;
        }
        let vals = visible_stack(&xe);
        let mut lits: Vec<String> = vec![];
        let mut printable = true;
        if use_tagged {
            lits.push(e.clone()); // no literal syntax for a tagged value: the expression itself stands for its value
        } else {
            for v in vals.iter().rev() {
                match lit_text(v) {
                    Some(t) => lits.push(t),
                    None => printable = false,
                }
            }
        }
        if !printable {
            continue;
        }
        let (pre, suf) = positions[rng.below(positions.len())];
        let style = if rng.chance(1, 2) { "eval" } else { "repl" };
        let prior = if rng.chance(1, 2) { "100 200" } else { "" };
        let with = format!("{} #( {} #) {}", pre, e, suf);
        let inl = format!("{} {} {}", pre, lits.join(" "), suf);
        let (ow, xw) = run_pair(prior, &with, style);
        let (oi, xi) = run_pair(prior, &inl, style);
        if ow["err"] == "panic" || oi["err"] == "panic" {
            continue;
        }
        if ow["err"] == "Limit" || oi["err"] == "Limit" {
            continue; // the two programs legitimately execute different numbers of instructions
        }
        if ow["err"] == "Context" {
            continue; // the expression needs a variable (e.g. the byte-order flag): refused in meta mode by design
        }
        judged += 1;
        if vals.len() > 1 {
            multi += 1;
        }
        let a = json!({"obs": ow, "vars": user_vars(&xw)});
        let b = json!({"obs": oi, "vars": user_vars(&xi)});
        trace.push_str(&json!({"run": i, "twin": "block", "o": fnv(&a.to_string())}).to_string());
        trace.push('\n');
        trace.push_str(&json!({"run": i, "twin": "inlined", "o": fnv(&b.to_string())}).to_string());
        trace.push('\n');
        side.push_str(&json!({"run": i, "style": style, "prior": prior, "with": with, "inlined": inl, "block": a, "inl": b}).to_string());
        side.push('\n');
    }
    std::fs::write(&args[0], trace).unwrap();
    std::fs::write(&args[1], side).unwrap();
    println!("{}", json!({"runs": n, "judged": judged, "multi_valued": multi}));
    0
}
