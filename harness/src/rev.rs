//! C02: record forward / backward stepping schedules of programs with recording enabled.
//! One event per API call, carrying the hash of the reversible machine state after it.
use crate::*;
use serde_json::{json, Value};

pub const MAX_FWD: usize = 400;

fn dump_hash(xs: &Xstate) -> String {
    fnv(&proj_machine(&xs.verif_dump()).to_string())
}

pub struct RunLog {
    pub events: Vec<Value>,
    pub moves: Vec<&'static str>,
    pub panic: Option<String>,
    pub panic_fwd: bool,
    pub compiled: bool,
}

/// Drive one program. `strategy`: 0 = forward to the end, back to the start, forward again;
/// 1 = seeded random walk; 2 = from every reached position go back k and forward k again.
pub fn drive(run: usize, src: &str, strategy: usize, rng: &mut Rng, setup: &dyn Fn(&mut Xstate)) -> RunLog {
    let mut xs = fresh();
    setup(&mut xs);
    xs.set_recording_enabled(true);
    let mut log = RunLog { events: vec![], moves: vec![], panic: None, panic_fwd: false, compiled: false };
    match guarded(|| xs.compile(src)) {
        Outcome::Done(Ok(())) => {}
        Outcome::Done(Err(_)) => return log,
        Outcome::Panic(m) => {
            log.panic = Some(m);
            log.panic_fwd = true;
            return log;
        }
    }
    log.compiled = true;
    xs.set_insn_limit(Some(100_000)).unwrap();
    log.events.push(json!({"run": run, "ev": "reset", "d": dump_hash(&xs)}));
    let mut hist: Vec<String> = vec![dump_hash(&xs)];
    let base = xs.verif_dump().rlog.len(); // steps recorded before the run starts (compile-time execution)
    let mut p = 1usize; // 1-based position like the specification
    let mut dirty = false;
    let mut last_logged = 0usize;

    // closures cannot borrow xs mutably twice; use small helper fns via macros
    macro_rules! fwd {
        () => {{
            let log_before = xs.verif_dump().rlog.len();
            let r = guarded(|| xs.next());
            match r {
                Outcome::Panic(m) => {
                    log.panic = Some(m);
                    // a panic in a forward step is C08's business; here the run simply ends
                    log.panic_fwd = true;
                    return log;
                }
                Outcome::Done(r) => {
                    let d = dump_hash(&xs);
                    let ok = r.is_ok();
                    log.moves.push("f");
                    // what a failed step left in the reverse log decides where the next rnext lands
                    let logged = xs.verif_dump().rlog.len().saturating_sub(log_before);
                    log.events.push(json!({"run": run, "ev": "step", "ok": if ok {1} else {0}, "d": d, "logged": logged}));
                    last_logged = logged;
                    if ok {
                        p += 1;
                        if p > hist.len() {
                            hist.push(d);
                        }
                    } else {
                        dirty = true;
                    }
                    ok
                }
            }
        }};
    }
    macro_rules! back {
        () => {{
            if dirty && p == 1 && base > 0 && xs.verif_dump().rlog.len() <= base {
                // the very first step failed without logging anything, and the log holds steps recorded while the source
                // was compiled (an immediate word ran): one more rnext would leave the run (k <= n only); the run ends here
                return log;
            } else {
            let r = guarded(|| xs.rnext());
            match r {
                Outcome::Panic(m) => {
                    log.panic = Some(m);
                    log.events.push(json!({"run": run, "ev": "rstep", "panic": 1, "d": "panic"}));
                    return log;
                }
                Outcome::Done(_) => {
                    let d = dump_hash(&xs);
                    log.moves.push("b");
                    log.events.push(json!({"run": run, "ev": "rstep", "d": d}));
                    if dirty {
                        if last_logged == 0 && p > 1 {
                            p -= 1;
                        }
                        dirty = false;
                    } else {
                        p -= 1;
                    }
                }
            }
            }
        }};
    }
    let can_fwd = |xs: &Xstate, p: usize, dirty: bool| xs.is_running() && !dirty && p < MAX_FWD;

    match strategy {
        0 => {
            while can_fwd(&xs, p, dirty) {
                if !fwd!() {
                    break;
                }
            }
            if dirty {
                back!();
            }
            while p > 1 {
                back!();
            }
            while can_fwd(&xs, p, dirty) {
                if !fwd!() {
                    break;
                }
            }
        }
        1 => {
            let total = 60 + rng.below(120);
            for _ in 0..total {
                if dirty {
                    back!();
                    continue;
                }
                let go_fwd = can_fwd(&xs, p, dirty) && (p == 1 || rng.chance(3, 5));
                if go_fwd {
                    fwd!();
                } else if p > 1 {
                    back!();
                } else {
                    break;
                }
            }
        }
        _ => {
            let mut reached = 0usize;
            while can_fwd(&xs, p, dirty) && reached < 24 {
                if !fwd!() {
                    break;
                }
                reached += 1;
                let k = 1 + rng.below(p - 1);
                for _ in 0..k {
                    if p > 1 {
                        back!();
                    }
                }
                for _ in 0..k {
                    if can_fwd(&xs, p, dirty) {
                        fwd!();
                    }
                }
            }
            if dirty {
                back!();
            }
        }
    }
    log
}

/// xv rev-record <out-trace> <out-side> --cases <file> | --random <seed> <n> <budget>
pub fn cmd_record(args: &[String]) -> i32 {
    let trace_path = &args[0];
    let side_path = &args[1];
    let mut sources: Vec<String> = vec![];
    let mut seed = 1u64;
    if args[2] == "--cases" {
        for c in read_lines(&args[3]) {
            let src = c["src"].as_array().map(|a| a.iter().map(|x| x.as_str().unwrap_or("")).collect::<Vec<_>>().join(" ")).unwrap_or_default();
            sources.push(src);
        }
        if let Some(s) = args.get(4) {
            seed = s.parse().unwrap_or(1);
        }
    } else {
        seed = args[3].parse().unwrap_or(1);
        let n: usize = args[4].parse().unwrap_or(100);
        let budget: usize = args[5].parse().unwrap_or(30);
        let dict: Vec<String> = fresh().word_list().iter().map(|s| s.to_string()).collect();
        let mut g = gen::Gen::new(seed, dict);
        for _ in 0..n {
            let b = 6 + g.rng.below(budget);
            sources.push(g.program(b));
        }
    }
    let mut rng = Rng::new(seed ^ 0x5151);
    let mut trace = String::new();
    let mut side = String::new();
    let mut runs = 0usize;
    let mut events = 0usize;
    let mut panics = 0usize;
    let mut not_compiled = 0usize;
    for (i, src) in sources.iter().enumerate() {
        let strategy = i % 3;
        let log = drive(i, src, strategy, &mut rng, &|_| {});
        if !log.compiled {
            not_compiled += 1;
            continue;
        }
        runs += 1;
        events += log.events.len();
        if log.panic.is_some() && !log.panic_fwd {
            panics += 1;
        }
        for e in &log.events {
            trace.push_str(&e.to_string());
            trace.push('\n');
        }
        side.push_str(&json!({"run": i, "src": src, "strategy": strategy, "moves": log.moves.join(""), "panic": if log.panic_fwd { None } else { log.panic.clone() }, "events": log.events.len()}).to_string());
        side.push('\n');
    }
    std::fs::write(trace_path, trace).unwrap();
    std::fs::write(side_path, side).unwrap();
    println!("{}", json!({"runs": runs, "events": events, "panics": panics, "not_compiled": not_compiled}));
    0
}
