//! C14: resource limits are hard bounds and hitting one is recoverable.
//! Cases come from spec/mc/MC_C14.tla: (program, N, S, H) + the design's predicted outcome and
//! the unlimited run's state trail.
use crate::*;
use serde_json::{json, Value};

fn lim(v: &Value) -> Option<usize> {
    let x = v.as_i64().unwrap_or(-1);
    if x < 0 { None } else { Some(x as usize) }
}

fn user_heap(xs: &Xstate, base: usize) -> Value {
    let d = xs.verif_dump();
    Value::Array(d.heap.iter().skip(base).map(cell_json).collect())
}

fn whole_stack(xs: &Xstate) -> Value {
    Value::Array(xs.verif_dump().data_stack.iter().map(cell_json).collect())
}

struct Setup {
    xs: Xstate,
    base: usize,
    n: usize,
    s: Option<usize>,
    h: Option<usize>,
}

fn setup(case: &Value) -> Setup {
    let mut xs = Xstate::boot().unwrap();
    xs.intercept_stdout(true);
    xs.intercept_output(true).unwrap();
    let base = xs.verif_dump().heap.len();
    // what was submitted before the limits are set
    let prior: String = case["prior"].as_array().map(|a| a.iter().map(|x| x.as_str().unwrap_or("")).collect::<Vec<_>>().join(" ")).unwrap_or_default();
    if !prior.is_empty() {
        let _ = xs.eval(&prior);
        xs.read_stdout();
    }
    let n = lim(&case["n"]).unwrap_or(120);
    // a limit set below the current size bounds growth, it cannot shrink what is already there
    let d0 = xs.verif_dump();
    let s = lim(&case["s"]).map(|x| x.max(d0.data_stack.len()));
    let h = lim(&case["h"]).map(|x| (x + base).max(d0.heap.len()));
    xs.set_stack_limit(lim(&case["s"])).unwrap();
    xs.set_heap_limit(lim(&case["h"]).map(|x| x + base)).unwrap();
    xs.set_insn_limit(Some(n)).unwrap();
    Setup { xs, base, n, s, h }
}

fn bounds(st: &Setup, why: &mut Vec<String>, at: &str) {
    let d = st.xs.verif_dump();
    if let Some(s) = st.s {
        if d.data_stack.len() > s {
            why.push(format!("{}: data stack holds {} items, limit {}", at, d.data_stack.len(), s));
        }
    }
    if let Some(h) = st.h {
        if d.heap.len() > h {
            why.push(format!("{}: heap holds {} cells, limit {}", at, d.heap.len() - st.base, h - st.base));
        }
    }
}

pub fn judge(case: &Value) -> Vec<Value> {
    let src: String = case["src"].as_array().map(|a| a.iter().map(|x| x.as_str().unwrap_or("")).collect::<Vec<_>>().join(" ")).unwrap_or_default();
    let mut res = vec![];
    let exp_err = case["err"].as_str().unwrap_or("none");
    if exp_err == "OutOfModel" || exp_err == "Internal" {
        return res;
    }
    // ---------------- run mode
    {
        let mut st = setup(case);
        let mut why: Vec<String> = vec![];
        let mut compiled = true;
        let out = guarded(|| {
            if let Err(e) = st.xs.compile(&src) {
                compiled = false;
                return Err(e);
            }
            st.xs.run()
        });
        match out {
            Outcome::Panic(_) => {} // C08's business
            Outcome::Done(r) => {
                bounds(&st, &mut why, "after run");
                let stdout = st.xs.read_stdout().unwrap_or_default();
                match (&r, exp_err) {
                    (Ok(()), "none") => {
                        if stack_json(&st.xs) != case["ds"] || user_heap(&st.xs, st.base) != case["heap"] {
                            why.push("run within the limits: final stack / variables differ from the design".into());
                        }
                        let exp_out: String = case["out"].as_array().map(|a| a.iter().map(|x| x.as_str().unwrap_or("")).collect()).unwrap_or_default();
                        if stdout != exp_out {
                            why.push("run within the limits: output differs".into());
                        }
                    }
                    (Ok(()), "Limit") => why.push(format!("the run completed although the {} limit must have been exceeded", case["which"].as_str().unwrap_or("?"))),
                    (Ok(()), other) => why.push(format!("expected error {}, got success", other)),
                    (Err(e), "none") => why.push(format!("expected success within the limits, got {} ({})", err_class(e), e)),
                    (Err(e), "Limit") => {
                        // (a limit hit while a meta block runs at compile time rejects the source: nothing of it remains)
                        if compiled && err_class(e) == "Limit" && case["which"] == "insn" && st.n < 120 {
                            // the state must be one the unlimited run passes through within N instructions
                            let ds = whole_stack(&st.xs);
                            let heap = user_heap(&st.xs, st.base);
                            let trail = case["trail"].as_array().cloned().unwrap_or_default();
                            if !trail.iter().any(|t| t["ds"] == ds && t["heap"] == heap) {
                                why.push(format!("state at the instruction-limit error is not a state of the first {} instructions", st.n));
                            }
                        }
                    }
                    (Err(e), other) => {
                        if err_class(e) != other {
                            why.push(format!("expected error {}, got {}", other, err_class(e)));
                        }
                    }
                }
            }
        }
        if !why.is_empty() {
            res.push(json!({"src": src, "mode": "run", "n": case["n"], "s": case["s"], "h": case["h"], "why": why, "expected_err": exp_err}));
        }
    }
    // ---------------- step mode with recovery
    {
        let mut st = setup(case);
        let mut why: Vec<String> = vec![];
        let out = guarded(|| {
            let mut why: Vec<String> = vec![];
            let c = st.xs.compile(&src);
            bounds(&st, &mut why, "after compile");
            if c.is_err() {
                return (why, None, 0usize);
            }
            let mut ok_steps = 0usize;
            let mut last: Option<Xerr> = None;
            while st.xs.is_running() && ok_steps < 2000 {
                match st.xs.next() {
                    Ok(()) => {
                        ok_steps += 1;
                        if ok_steps > st.n {
                            why.push(format!("{} instructions executed under an instruction limit of {}", ok_steps, st.n));
                            break;
                        }
                    }
                    Err(e) => {
                        last = Some(e);
                        break;
                    }
                }
                bounds(&st, &mut why, &format!("after step {}", ok_steps));
                if !why.is_empty() {
                    break;
                }
            }
            (why, last, ok_steps)
        });
        if let Outcome::Done((w, last, _steps)) = out {
            why.extend(w);
            if let Some(e) = last {
                if err_class(&e) == "Limit" {
                    // recovery
                    let insn_hit = case["which"] == "insn" && exp_err == "Limit";
                    st.xs.set_stack_limit(None).unwrap();
                    st.xs.set_heap_limit(None).unwrap();
                    st.xs.set_insn_limit(Some(120)).unwrap();
                    if insn_hit && case["free_terminates"] == 1 && case["free_ok"] == 1 {
                        let r = guarded(|| {
                            let mut r = Ok(());
                            let mut k = 0;
                            while st.xs.is_running() && k < 2000 {
                                r = st.xs.next();
                                if r.is_err() {
                                    break;
                                }
                                k += 1;
                            }
                            r
                        });
                        if let Outcome::Done(r) = r {
                            let fin = &case["free_final"];
                            let cls = match &r { Ok(()) => "none", Err(e) => err_class(e) };
                            if cls != fin["err"].as_str().unwrap_or("") || (cls == "none" && (whole_stack(&st.xs) != fin["ds"] || user_heap(&st.xs, st.base) != fin["heap"])) {
                                why.push("after raising the instruction limit the resumed run does not end like an unlimited run".into());
                            }
                        }
                    } else {
                        let before = st.xs.data_depth();
                        let r = guarded(|| st.xs.eval("7"));
                        let ok = matches!(r, Outcome::Done(Ok(()))) && st.xs.data_depth() == before + 1 && st.xs.get_data(0) == Some(&Cell::Int(7));
                        if !ok {
                            why.push("after raising the limits `7` does not simply push 7".into());
                        }
                        let r = guarded(|| st.xs.eval(": zz_probe 5 ; zz_probe"));
                        let ok = matches!(r, Outcome::Done(Ok(()))) && st.xs.get_data(0) == Some(&Cell::Int(5));
                        if !ok {
                            why.push("after raising the limits a new definition cannot be compiled and called".into());
                        }
                    }
                }
            }
        }
        if !why.is_empty() {
            res.push(json!({"src": src, "mode": "step", "n": case["n"], "s": case["s"], "h": case["h"], "why": why, "expected_err": exp_err}));
        }
    }
    res
}

/// xv limits-replay <cases> <mismatches>
pub fn cmd_replay(args: &[String]) -> i32 {
    let cases = read_lines(&args[0]);
    let mut out = String::new();
    let mut bad = 0usize;
    let mut limit_hits = 0usize;
    for c in &cases {
        if c["err"] == "Limit" {
            limit_hits += 1;
        }
        for m in judge(c) {
            bad += 1;
            out.push_str(&m.to_string());
            out.push('\n');
        }
    }
    std::fs::write(&args[1], out).unwrap();
    println!("{}", json!({"cases": cases.len(), "limit_hits": limit_hits, "mismatches": bad}));
    0
}

const FLOODS: &[&str] = &[
    "begin 1 repeat",
    "1 begin dup dup repeat",
    "1 2 begin over over repeat",
    "begin depth repeat",
    "1 2 3 begin rot over repeat",
    "begin [ 1 2 3 ] unbox repeat",
    "begin 1 2 3 3 collect unbox repeat",
    ": f 1 f ; f",
    "100 0 do I I loop",
    "[ 1 2 3 4 5 6 7 8 9 ] unbox",
    "1 2 3 4 5 6 7 8 depth collect unbox",
    "1 var a 2 var b 3 var c 4 var d",
    "#( 1 2 3 4 5 #)",
    "[ 1 2 3 4 ] foreach I I loop",
    "|01 02 03 04| open-bitstr begin u8 remain 0 == until",
    "[ 1 2 3 ] let [ a b c ]",
    ": g local x x x x ; 1 g 2 g",
    "\"abc\" >bitstr open-bitstr u8 u8 u8",
];

/// every "%" these sources print costs one `print` instruction of its own - also when the source is rejected afterwards
const MARKERS: &[&str] = &[
    "#( \"%\" print #) ]",
    "#( \"%\" print \"%\" print #) foo_unknown",
    "\"%\" print",
    "#( \"%\" print #)",
    ": pm \"%\" print ; #( pm pm #) then",
    "\"%\" print 1 0 /",
];

/// xv limits-record <trace> <side> <seed> <n> <budget>
pub fn cmd_record(args: &[String]) -> i32 {
    let seed: u64 = args[2].parse().unwrap_or(1);
    let n: usize = args[3].parse().unwrap_or(100);
    let budget: usize = args[4].parse().unwrap_or(30);
    let dict: Vec<String> = fresh().word_list().iter().map(|s| s.to_string()).collect();
    let mut g = gen::Gen::new(seed, dict);
    let mut rng = Rng::new(seed ^ 0xabcdef);
    let mut trace = String::new();
    let mut side = String::new();
    let mut events = 0usize;
    let mut limit_errors = 0usize;
    for run in 0..n {
        let mut xs = Xstate::boot().unwrap();
        xs.intercept_stdout(true);
        xs.intercept_output(true).unwrap();
        let base = xs.verif_dump().heap.len() as i64;
        trace.push_str(&json!({"run": run, "ev": "reset"}).to_string());
        trace.push('\n');
        let mut srcs = vec![];
        let rounds = 1 + rng.below(3);
        let mut panicked = false;
        let rounds = if rng.chance(1, 5) { 4 + rng.below(10) } else { rounds };
        let marker_run = rounds >= 4;       // many short evaluations of a source that prints one "%" per instruction
        for round in 0..rounds {
            // limits changed between evaluations; now and then only the stack / heap limit (the instruction budget goes on)
            let nlim = rng.below(70) as i64;
            let slim = if rng.chance(1, 4) { -1 } else { rng.below(14) as i64 };
            let hlim = if rng.chance(1, 3) { -1 } else { rng.below(4) as i64 };
            let keep = round > 0 && (marker_run || rng.chance(1, 2));
            if !keep { xs.set_insn_limit(Some(nlim as usize)).unwrap(); }
            xs.set_stack_limit(if slim < 0 { None } else { Some(slim as usize) }).unwrap();
            xs.set_heap_limit(if hlim < 0 { None } else { Some((hlim + base) as usize) }).unwrap();
            let d0 = xs.verif_dump();
            let mut ev = json!({"run": run, "ev": "setlimit", "n": nlim, "s": slim, "h": hlim,
                                "ds": d0.data_stack.len(), "heap": d0.heap.len() as i64 - base});
            if keep { ev["keepmeter"] = json!(1); }
            trace.push_str(&ev.to_string());
            trace.push('\n');
            let src = if marker_run { MARKERS[rng.below(MARKERS.len())].to_string() }
                      else if rng.chance(1, 2) { FLOODS[rng.below(FLOODS.len())].to_string() } else { let b = 6 + g.rng.below(budget); g.program(b) };
            srcs.push(src.clone());
            let stepwise = rng.chance(2, 3);
            let r = guarded(|| {
                let mut evs: Vec<Value> = vec![];
                let mut lim_err = false;
                let snap = |xs: &Xstate| {
                    let d = xs.verif_dump();
                    (d.data_stack.len() as i64, d.heap.len() as i64 - base)
                };
                let marks = |xs: &mut Xstate| xs.read_stdout().unwrap_or_default().matches('%').count();
                if stepwise {
                    let c = xs.compile(&src);
                    let (ds, hp) = snap(&xs);
                    let mk = marks(&mut xs);
                    evs.push(json!({"run": run, "ev": "call", "ok": if c.is_ok() {1} else {0}, "ds": ds, "heap": hp, "marks": mk}));
                    if c.is_ok() {
                        let mut k = 0;
                        while xs.is_running() && k < 300 {
                            let r = xs.next();
                            let (ds, hp) = snap(&xs);
                            let mk = marks(&mut xs);
                            evs.push(json!({"run": run, "ev": "step", "ok": if r.is_ok() {1} else {0}, "ds": ds, "heap": hp, "marks": mk}));
                            k += 1;
                            if let Err(e) = r {
                                lim_err = err_class(&e) == "Limit";
                                break;
                            }
                        }
                    }
                } else {
                    let r = xs.eval(&src);
                    let (ds, hp) = snap(&xs);
                    if let Err(e) = &r {
                        lim_err = err_class(e) == "Limit";
                    }
                    let mk = marks(&mut xs);
                    evs.push(json!({"run": run, "ev": "call", "ok": if r.is_ok() {1} else {0}, "ds": ds, "heap": hp, "marks": mk}));
                }
                (evs, lim_err)
            });
            match r {
                Outcome::Panic(_) => {
                    panicked = true;
                    break;
                }
                Outcome::Done((evs, lim_err)) => {
                    if lim_err {
                        limit_errors += 1;
                    }
                    for e in evs {
                        trace.push_str(&e.to_string());
                        trace.push('\n');
                        events += 1;
                    }
                }
            }
        }
        side.push_str(&json!({"run": run, "srcs": srcs, "panicked": panicked}).to_string());
        side.push('\n');
    }
    std::fs::write(&args[0], trace).unwrap();
    std::fs::write(&args[1], side).unwrap();
    println!("{}", json!({"runs": n, "events": events, "limit_errors": limit_errors}));
    0
}
