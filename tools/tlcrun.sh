#!/bin/sh
# developer helper: TLC with the library path of the specification (java started directly so that -Xss covers the main thread)
export JAVA_TOOL_OPTIONS="-DTLA-Library=/verif/spec:/verif/spec/mc:/verif/spec/trace ${TLC_JOPTS}"
exec java -Xss1g -Dfile.encoding=UTF-8 -Dsun.stdout.encoding=UTF-8 -Dstdout.encoding=UTF-8 -XX:+UseParallelGC -cp /opt/veriftools/tla/tla2tools.jar:/opt/veriftools/tla/CommunityModules-deps.jar tlc2.TLC "$@"
