#!/bin/sh
# developer helper: tlc with the library path of the specification
export JAVA_TOOL_OPTIONS="-DTLA-Library=/verif/spec:/verif/spec/mc:/verif/spec/trace -Xss1g ${TLC_JOPTS}"
exec tlc "$@"
