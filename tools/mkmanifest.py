#!/usr/bin/env python3
"""Regenerates MANIFEST.json from the table below (keeps it schema-valid at all times)."""
import json, os, subprocess
ROOT = os.path.dirname(os.path.dirname(os.path.abspath(__file__)))
ALL = ["C%02d" % i for i in range(1, 19)]

CLAIMED = {
 "C01": dict(cat="model_checking", design="5/C01",
   technique="TLA+ spec (Xeh.tla compiler+VM vs Src.tla structural reference), TLC exhaustive enumeration of programs, replay of every behaviour on the real crate; seeded programs judged by TLC evaluating Src.tla (Trace_Source); compiled code skeleton compared with the design's (drift)",
   text="TLC enumerates every program of eight fragment grammars (control flow, definitions, locals in loops, late binding) up to a phrase budget, checks on the design that the back-patching compiler + VM agree with a structural token-walking reference, and exports one predicted behaviour per program; each is replayed on the crate built from /repo and must give the predicted stack, variables, output, error class / failure point, or still be running at the instruction limit. Exhaustive inside the budget, nothing outside it.",
   note="Trusts TLC, the JSON export/replay plumbing and the harness's rendering of cells; the reference semantics (Src.tla) is the stated meaning of the source; integers stay below 2^30 in the model."),
 "C02": dict(cat="model_checking", design="5/C02",
   technique="TLA+ spec of the reverse log (Xeh.tla primitives, RNext), TLC over all Fwd/Back interleavings; recorded stepping traces of the real crate validated by TLC against Trace_ReverseObs",
   text="TLC explores every interleaving of forward and backward steps of every generated program on the implementation-shaped design of the reverse log and checks that the machine state at a position is always the one first recorded there. The same programs plus seeded programs over the whole dictionary are stepped on the real crate under three schedules; TLC validates the recorded traces against an observational trace specification (k steps back = the state k steps earlier; replay reproduces). A corrupted event is shown to be rejected on every thorough run.",
   note="Trusts the dump hook to render every component the property lists; a failed forward step is not a step (DESIGN 5.19); meter and stdout are outside the reversible state."),
 "C14": dict(cat="model_checking", design="5/C14",
   technique="TLA+ spec of the limits in the VM (Xeh.tla), TLC stepping every program under every limit triple with invariants after each instruction; replay of each pair on the real crate; recorded step traces validated by TLC against Trace_Limits",
   text="TLC steps every generated program one instruction per action under 15 limit triples and checks meter<=N, stack<=S, heap<=H in every state, that a Limit error only occurs at a limit, and that a run resumed after raising the instruction limit ends like an unlimited run. Each (program, limits) pair is replayed on the real crate in run mode (state at the limit error must be a state of the first N instructions of the design's trail) and in step mode with recovery; seeded whole-dictionary and flooding programs with limits changed between evaluations are recorded step by step and validated by a trace specification that keeps its own instruction count.",
   note="Atomicity of the exceeding operation is not demanded; a limit lowered below the current size only bounds growth; trusts the dump hook for stack/heap lengths."),
 "C15": dict(cat="model_checking", design="5/C15",
   technique="TLA+ spec of the three drive modes x recording (Xeh.tla Submit/Run/Step), TLC on all generated programs; replay in six modes against the structural reference; six-mode twin traces validated by TLC (Trace_TwinObs)",
   text="TLC checks on the design that eval, compile+run and compile+step, each with recording off and on, end in the same observable state for every generated program, and exports the reference's prediction; the real crate is run in all six modes on every enumerated program (must match the prediction) and on seeded whole-dictionary programs (the six observations - rendered result, visible stack, all variables and heap cells, stdout - must be equal; validated by the twin-run trace specification).",
   note="Panics are treated as an observation (C08 judges them); the instruction limit is set identically before each mode."),
 "C10": dict(cat="model_checking", design="5/C10",
   technique="TLA+ spec of build_from / contexts / pending input / flow stack (Xeh.tla), twin-run self-composition checked by TLC over all scenarios; twin replay on the real crate; seeded twin traces validated by TLC (Trace_TwinObs); REPL scripts through the real binary",
   text="TLC judges every scenario (prior history x open structures x failing token x trailing text x probes x submission style, plus run-time failing sources) as a two-run statement on the design: probes after a rejected source behave as if it had never been submitted and mode/nesting/flow/input are restored. Every scenario is replayed as twin runs on the real crate and must also match the design's predicted probe outcomes; seeded long histories with corrupted sources are recorded as twin observations and validated by the twin-run trace specification; a regression configuration shows that the model checker still rejects the pinned, non-unwinding design.",
   note="Behaviour is compared, not buffer names or heap addresses; a source counts as rejected at build time when compiling it on a clone fails."),
 "C11": dict(cat="model_checking", design="5/C11",
   technique="TLA+ spec of evaluation contexts and meta blocks (Xeh.tla Open/Close/Purge/EmitResults), TLC over expression x position x prior state x style; block-vs-inlined twin replay on the real crate; seeded twins validated by TLC (Trace_TwinObs)",
   text="TLC checks on the design, for every constant expression, position, prior state and submission style, that the program with the meta block equals the program with the block's values inlined (last result first), that only constants survive the block, that a failing block rejects the source without touching anything, and that compile leaves stack and existing variables unchanged. Every scenario is replayed on the real crate (twin + prediction + dictionary purge + compile purity); seeded expressions whose value is computed by the implementation's own eval are compared block-vs-inlined at seven positions and validated by the twin-run trace specification.",
   note="Inside another meta block the stack is shared and values are not reversed (pinned by the suite): only single-valued stack-insensitive blocks are judged there; expressions needing a variable are refused in meta mode by design and skipped."),
 "C04": dict(cat="model_checking", design="5/C04",
   technique="TLA+ refinement BitstrStore.tla (buffers, reference counts, borrowed flag, bit ranges) => Bits.tla (plain sequences) checked by TLC over all reachable layouts; every explored transition - from reachable layouts and from every small layout taken as an initial state - replayed on xeh::bitstr::Bitstr; seeded long histories validated by TLC (Trace_Bits)",
   text="TLC explores every layout reachable within the bounds (3 handles, 3 buffers, history depth 3-4, byte patterns with both kinds of stale bit) and checks that each implementation-shaped operation (detach with its unique-owner case, append fast and slow path, insert, invert, views) yields exactly the plain-sequence result and leaves the operands unchanged. Each of the explored transitions is one test on the real Bitstr: the pre-state layout (exact bytes, ownership, borrowed flag, ranges) is rebuilt through the public API, the operation applied and every live handle compared (bits, iter8, len, hex, bytes, ==). Seeded 30-operation histories on 8 handles are validated by a trace specification that conjoins each event with the abstract operator. A regression configuration shows the pinned append design is still rejected.",
   note="Exhaustive inside the stated constants only; positions of seek/substr are taken relative to start(); derived views are compared with reference functions of the predicted bits."),
 "C05": dict(cat="model_checking", design="5/C05",
   technique="TLA+ codec laws (Bits.tla Encode/Decode as byte-order permutations of MSB-first bit patterns) checked by TLC for every width/order/pattern; replay at 24 bit offsets (all alignments, fields starting deep in the buffer) on the real crate; random values judged by TLC (Trace_Codec)",
   text="TLC checks on the specification, for every width 1..128, both byte orders and a per-width pattern family (plus all values at small widths), that decoding inverts encoding, that big-endian is the MSB-first pattern, that byte-multiple little-endian is the byte reversal and that the short group travels last. Every case is replayed through Bitstr::from_int/to_uint/to_int/from_f*/to_f* at 24 bit offsets with both stale-bit fillings and through the language words; random 128-bit values are packed/unpacked by the real crate and each event is judged by TLC evaluating the codec.",
   note="Numbers are bit patterns in the specification (no big integers); float NaN payloads through the language-level f32 path are not judged bit-exactly."),
 "C06": dict(cat="model_checking", design="5/C06",
   technique="TLA+ spec of the parsing cursor (Cursor.tla: input with origin, absolute offset, LIFO stash, byte order, stack) with C06 as invariants/action properties checked by TLC over all word sequences; every maximal path replayed through eval; seeded sequences validated by TLC (Trace_Cursor)",
   text="TLC explores all sequences of parsing words (54-word alphabet crossing every cursor word with in-range, boundary, out-of-range and HUGE arguments) from three setups including an unaligned big-endian sub-input and nested suspended inputs, and checks in every state that the offset stays inside the input, remain = end - offset, that a failing word leaves input/offset/stash/rest of the stack untouched, that a successful read returned exactly the bits it moved over and that close-bitstr restores the matching open's pair. Every maximal path is replayed through the real interpreter one word per call with offset, remain, input, stack and error class compared after each word; seeded 30-word sequences are validated by a trace specification that re-executes each word with the specification's operators.",
   note="HUGE stands for sizes >= 2^63-1 (any error accepted, nothing may move); integer values above 30 bits and float values are judged by C05, not here."),
 "C07": dict(cat="model_checking", design="5/C07",
   technique="TLA+ theorem Inverse on Record.tla (Pack / ParseOk over the Bits.tla codec) checked by TLC for all field lists up to a length; replay through the construction and read words incl. every emit split; seeded 20-field records judged by TLC (Trace_Pack)",
   text="TLC checks on the specification that for every field list (111 field shapes: widths 1..128 incl. 127/128, signed and unsigned, both byte orders, raw bits, strings, byte lists; so that fields start at every bit alignment) the packed length is the sum of the widths and parsing field by field returns the values and ends exactly at the end. Each exported list is packed on the real interpreter with the construction words, concatenated with >bitstr and with every split across emit calls under output interception, then parsed back with the matching read words: packed bits, parsed values, remain, output and output-length must be the specification's. Seeded records of up to 20 random fields are validated by TLC evaluating Pack/ParseOk on each recorded event.",
   note="Float fields travel as their IEEE bit pattern (exactly representable values); 128-bit unsigned fields cannot be cells and are excluded (DESIGN 5.19)."),
 "C09": dict(cat="model_checking", design="5/C09",
   technique="TLA+ bit-level arithmetic (Arith.tla) proved by TLC exhaustion at small widths against integer arithmetic, then used at W=128 as the oracle; exact small model of doubles; type-dispatch table; replay through eval; random i128 pairs judged by TLC (Trace_Arith)",
   text="TLC proves by exhaustion at widths 4-6 (all operand pairs, all shift counts) that the W-bit two's-complement operators of Arith.tla (add, sub, mul with wide-product overflow test, truncating div/rem, neg, abs, min/max, comparisons, bitwise, shifts, popcount) agree with mathematical integer arithmetic, wrapped when not representable. The same operators at W=128 give the expected result of every word on a boundary family; a small exact model of doubles (zero, infinities, NaN, m*2^e) gives the IEEE results that are exactly representable; a dispatch table says which operand-type combinations are type errors and that the error must report one of the actual operands. Every case is replayed through eval; random boundary-biased i128 pairs evaluated by the real crate are judged by TLC at 128 bits.",
   note="Rounding of inexact double results is assumed from f64; NaN comparisons, round ties and out-of-range conversions are unspecified by the property and not judged."),
 "C12": dict(cat="model_checking", design="5/C12",
   technique="TLA+ association-list / sequence model (Collections.tla) explored by TLC over all insert/remove/get histories and index classes; every history replayed through eval with all intermediate versions kept alive",
   text="TLC explores every history of map insert/remove/get up to a depth over a key universe that crosses all cell types (and over int-only and string-only universes), keeping every intermediate version, with the invariant that a map holds one value per key under the language's equality; plus vector and string words at every index class (negative, out of range, beyond the machine range). Every history is replayed through eval: the predicted stack contains every version of the map and every get result, so both wrong results and a changed old version are mismatches. One recorded known finding (keys that Ord for Cell cannot order collide) is matched by signature; histories whose keys are all ints or all strings must match exactly.",
   note="Maps are compared as sets of pairs; sort is judged on integers only; NaN is never a key."),
 "C13": dict(cat="model_checking", design="5/C13",
   technique="TLA+ dictionary table (Words.tla) from which TLC generates the matrix word x tagged positions x tag map x depth; twin runs on the real crate validated by TLC against the observational trace specification Trace_TagObs; tagged values sent through carrier phrases must arrive with the same tags",
   text="TLC generates from the dictionary table every combination of word, non-empty subset of argument positions to tag, tag map (empty, one pair, the formatting tag, a tag whose value is itself tagged) and depth (the argument itself or an element inside a container argument). Each case is executed as a twin on the real crate; TLC validates the recorded pairs against a trace specification stating that the observations (results with every tag stripped at every depth, error class, output, variables) are equal and that results of computing words carry no tags.",
   note="One sample value per argument type; about 130 word/type rows are tabulated (the tag words and, for the formatting tag, the printing words are excluded by the property itself)."),
 "C16": dict(cat="model_checking", design="5/C16",
   technique="TLA+ lexer over character classes (Lexer.tla) with progress/tiling/totality checked by TLC on all texts up to a length; concretised replay on Lex::next; print/read values enumerated by TLC; seeded UTF-8 spans validated by TLC (Trace_Lexer)",
   text="TLC enumerates every text over 22 character classes (whitespace kinds, digits, hex letters, radix markers, signs, separators, the three quote characters, backslash, bar, parentheses, letters, a multi-byte class) up to a length and checks on the design that every token consumes at least one character, tokens tile the text and lexing stops within len+1 tokens. Each class text is concretised with several real characters per class (1-4 byte UTF-8) and lexed by the real lexer: kinds, spans, decoded strings, bit-string bits and integer values must be the predicted ones. TLC also enumerates values (all bit-strings up to a length, integers, vectors/maps of those) with their literal text; the real printer must produce it and reading it back must give an equal value. Seeded arbitrary UTF-8 texts are lexed to the end and the recorded spans validated by a trace specification (termination, progress, tiling).",
   note="Real literals are compared with str::parse::<f64> of the same text (assumption); integer values in the class model are small."),
 "C17": dict(cat="model_checking", design="5/C17",
   technique="TLA+: ground-truth failing token from the structural reference (Src.tla) vs the token the design's debug map blames (Xeh.tla), checked by TLC on every failing generated program; location function enumerated by TLC; MC_C17D states the ground truth for build-time failures (meta blocks, immediate words) and nested sources (~), include); replay with varied layouts on the real crate",
   text="For every generated failing program TLC takes the position at which the structural reference stops as the ground truth and checks on the design that the debug map (kept index-aligned with the bytecode through every emit and back-patch) blames that token; each program is then laid out with varied line ends, tabs, multi-byte text and comments, evaluated after 0-2 earlier sources, and last_err_location() must name the right source, quote the failing token's exact byte range, its true line and column and its line. The line/column/quoted-line function is specified separately, enumerated by TLC over all prefixes of LF/CR/tab/space/ASCII/2-3-4-byte characters, and replayed on lex::token_location in isolation (the harness's own reference function is validated against the same enumeration).",
   note="Either token of a two-token construct may be blamed; errors reported at the end of input are not judged."),
 "C18": dict(cat="exploration", design="5/C18",
   technique="TLA+ input matrix (MC_C18.tla) generated by TLC; events recorded from the real crate validated by TLC against the algebraic trace specification Trace_TextCodec (learned bytes<->text map per codec)",
   text="TLC generates the input matrix (byte strings of every length 0..12, at every bit alignment inside a parent bit-string so that the copying path is taken, and in every argument form; inputs that >bitstr rejects; texts containing never-valid characters) and the real interpreter runs the four encoders/decoders on it; TLC validates the recorded events against a trace specification that learns the bytes<->text map per codec and requires determinism, injectivity, decode(encode(b)) = b, nil for never-valid characters, never a decode error, and rejection by the encoder of exactly what >bitstr rejects or what is not whole bytes. A corrupted decode result is shown to be rejected on every run.",
   note="Exploration level: the specification is a generator and an algebraic oracle; it does not model the third-party encoders, and the alphabets are deliberately not fixed."),
 "C03": dict(cat="model_checking", design="5/C03",
   technique="TLA+ value semantics of interpreter instances: TLC enumerates all clone/submit/step histories per theme, from the empty interpreter and after a prelude that created the storage to share (MC_C03); histories executed on real State::clone values and validated by TLC against the observational trace specification Trace_CloneObs; REPL /snapshot-/rollback scripts through the real binary",
   text="On the specification level an interpreter is a value: what an instance renders is a function of the calls applied to it since boot, a clone inheriting its source's sequence. TLC enumerates every history (up to three instances, clone of clone, length 3-4) over themed alphabets built to share storage and then mutate it - slices of a variable's bit-string, variables/vectors/maps, definitions with late binding that patches code in place, the parsing cursor and intercepted output, the 2D canvas host object, stepping and reverse stepping. Each history is executed on real State values and the canonical dump of every live instance after every event is validated by TLC against the trace specification, which implies: a clone equals its source, an event on one instance changes no other, and equal call sequences give equal dumps, results and output. Seeded long histories over the whole dictionary and REPL /snapshot-/rollback scripts through the real binary complete it.",
   note="The dump renders shared structure by value (bit-strings as bits, the canvas through the plugin's public accessors); non-deterministic and external words are excluded by the property itself."),
 "C08": dict(cat="exploration", design="5/C08",
   technique="TLA+ totality statement (Trace_Total: every call ends Ok or Err, no action produces a panic) and the argument matrix generated by TLC from Words.tla (MC_C08); harness runs the matrix, all token pairs and seeded API sequences under catch_unwind in dev and release builds",
   text="TLC generates the complete matrix of tabulated words x argument tuples from a pool that crosses every type with the integer boundary values (0, +-1, 2^63, 2^64, i128 min/max, isize min), NaN/inf, empty and 76-byte non-ASCII strings, nested and tagged values incl. hand-made formatting tags; the harness runs it with recording off and on, applies the same pools to every other dictionary word at arities 0..3 and as follower of immediate words, runs all ordered pairs of ~270 tokens (dictionary, structural tokens, malformed fragments) and seeded API call sequences (eval, compile, run, next, rnext, pretty_error, format_cell, clone/restore, limits), in a build with overflow checks and a release build. Every call is under catch_unwind and followed by error formatting; a dead process is attributed through a progress log. Outcomes are validated by TLC against the totality trace specification.",
   note="Exploration level: no panic on the explored inputs, not a proof; the property's own preconditions apply (limits set, modest allocation sizes, external words excluded)."),
}

PENDING_REASON = "check not built yet in this build session (planned, DESIGN.md section 12); no claim is made for it"

def main():
    commits = subprocess.run(["git", "-C", "/repo", "log", "--format=%h %s"], capture_output=True, text=True).stdout.splitlines()
    hook_commits = [c.split()[0] for c in commits if c.split(" ", 1)[1].startswith("verif hooks")]
    checks = []
    for pid in ALL:
        if pid not in CLAIMED:
            continue
        c = CLAIMED[pid]
        checks.append({
            "property_id": pid,
            "quick_cmd": f"./check {pid} --tier quick",
            "thorough_cmd": f"./check {pid} --tier thorough",
            "evidence_file": f"/verif/evidence/{pid}.json",
            "replay_cmd_template": f"./check {pid} --replay {{path}}",
            "engine": "tlc+xv",
            "level_claimed": {"category": c["cat"], "text": c["text"], "design_ref": "DESIGN.md section " + c["design"]},
            "level_note": c["note"],
            "technique": c["technique"],
        })
    man = {
        "version": 1,
        "setup_cmd": "./setup.sh",
        "hooks": {
            "guard": "cargo feature verif_hooks",
            "enable": "the harness crate /verif/harness depends on /repo by path with features = [\"verif_hooks\"]; every check runs `cargo build --offline` there, which rebuilds xeh from the working tree",
            "baseline_off_cmd": "cd /repo && cargo test --workspace --no-fail-fast --offline",
            "source_commits": hook_commits,
            "add_only": True,
        },
        "engines": [
            {"name": "tlc+xv", "path": "/verif/check", "serves_properties": sorted(CLAIMED.keys()),
             "kind_free_text": "explicit TLA+ specification (spec/*.tla) model-checked with TLC; behaviours exported by TLC are replayed on the real crate by the Rust harness (harness/, xv) and traces recorded from the real crate are validated by TLC trace specifications"}
        ],
        "checks": checks,
        "notes": "See DESIGN.md. Exit codes: 0 held / 1 VIOLATION / 2 tool error. known_findings.json lists recorded findings and fixed defects.",
        "not_applicable": [{"property_id": p, "reason": NA.get(p, PENDING_REASON)} for p in ALL if p not in CLAIMED],
    }
    json.dump(man, open(os.path.join(ROOT, "MANIFEST.json"), "w"), indent=1)
    print("claimed:", sorted(CLAIMED.keys()))

NA = {}
if __name__ == "__main__":
    main()
