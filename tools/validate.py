#!/usr/bin/env python3
import json, glob, sys, jsonschema
ms = json.load(open('/root/.vp/MANIFEST.schema.json')); es = json.load(open('/root/.vp/EVIDENCE.schema.json'))
jsonschema.validate(json.load(open('/verif/MANIFEST.json')), ms)
for f in sorted(glob.glob('/verif/evidence/*.json')):
    jsonschema.validate(json.load(open(f)), es)
    print("ok", f)
print("manifest valid")
