#!/bin/sh
# run every quick (or $1) check and print exit codes
tier=${1:-quick}
cd /verif
for i in 01 02 03 04 05 06 07 08 09 10 11 12 13 14 15 16 17 18; do
  s=$(date +%s)
  ./check C$i --tier $tier > work/runall_C$i.log 2>&1
  rc=$?
  e=$(date +%s)
  echo "C$i rc=$rc $((e-s))s $(grep -c '^VIOLATION' work/runall_C$i.log) violations $(grep -c '^KNOWN-FINDING' work/runall_C$i.log) known"
done
