#!/bin/sh
# tools/seeded_regress.sh [tier] [parallel] [name-glob]: every archived seeded change is evaluated in its own sandbox
# (tools/mutant_sandbox.sh: private worktree of /repo + private copy of /verif) against the check of the property it
# targets; writes seeded/RESULTS.md (which check caught which change).  /repo itself is never touched.
tier=${1:-quick}; par=${2:-4}; glob=${3:-*}
cd /verif || exit 2
tmp=$(mktemp /tmp/xvreg.XXXXXX)
for d in seeded/$glob/; do
  n=$(basename $d); [ -f $d/meta.json ] || continue
  p=$(python3 -c "import json; print(json.load(open('$d/meta.json'))['property'])")
  echo "$d/patch.diff $tier $p"
done | xargs -P $par -L 1 tools/mutant_sandbox.sh > $tmp 2>&1
sort $tmp > work/seeded_regress.out; rm -f $tmp
if [ "$glob" = "*" ]; then
  { echo "| seeded change | target check | tier | exit | VIOLATION lines | first report |"; echo "|---|---|---|---|---|---|";
    sed -n 's/^\([A-Z0-9]*-m[0-9]*\) \(C[0-9]*\) tier=\([a-z]*\) rc=\([0-9]*\) violations=\([0-9]*\) :: \(.*\)$/| \1 | \2 | \3 | \4 | \5 | \6 |/p' work/seeded_regress.out | tr -d '`' ; } > seeded/RESULTS.md
fi
cat work/seeded_regress.out
