#!/bin/sh
# tools/seeded_regress.sh [tier] [name-glob]: apply every archived seeded change to /repo in turn, run the check of the
# property it targets, undo it, and write seeded/RESULTS.md (which check caught which change).
tier=${1:-quick}; glob=${2:-*}
cd /verif || exit 2
if [ -n "$(git -C /repo status --porcelain)" ]; then echo "/repo is not clean"; exit 2; fi
out=seeded/RESULTS.md
[ "$glob" = "*" ] && { echo "| seeded change | target check | tier | exit | VIOLATION lines | first report |"; echo "|---|---|---|---|---|---|"; } > $out
for d in seeded/$glob/; do
  n=$(basename $d); p=$(python3 -c "import json,sys; print(json.load(open('$d/meta.json'))['property'])")
  git -C /repo apply $d/patch.diff || { echo "| $n | $p | $tier | patch does not apply | | |" >> $out; continue; }
  ./check $p --tier $tier > work/seeded_$n.log 2>&1; rc=$?
  git -C /repo checkout -- .
  v=$(grep -c '^VIOLATION' work/seeded_$n.log)
  first=$(grep -m1 '^VIOLATION' work/seeded_$n.log | sed 's/^VIOLATION property=[A-Z0-9]* replay=[^ ]* *# *//' | cut -c1-160 | tr '|' '/')
  echo "| $n | $p | $tier | $rc | $v | $first |" >> $out
  echo "$n $p rc=$rc violations=$v"
done
git -C /repo status --porcelain | head -3
