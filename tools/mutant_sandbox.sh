#!/bin/sh
# tools/mutant_sandbox.sh <patch.diff> <tier> <Cxx> [<Cyy> ...]
# Evaluates a seeded change WITHOUT touching /repo: a detached worktree of /repo's HEAD with the patch applied and a
# private copy of /verif whose harness depends on that worktree live under a scratch directory, which is removed at
# the end.  Several of these can run side by side.  Prints one line per check; logs go to /verif/work/sandbox/.
patch=$(readlink -f "$1"); tier=$2; shift 2
name=$(basename $(dirname "$patch"))
sb=$(mktemp -d /tmp/xvsb.XXXXXX)
mkdir -p /verif/work/sandbox
git -C /repo worktree add -q --detach $sb/repo HEAD || exit 2
( cd $sb/repo && { git apply "$patch" 2>/dev/null || git apply --3way "$patch"; } ) || { echo "$name: patch does not apply"; git -C /repo worktree remove --force $sb/repo; rm -rf $sb; exit 2; }
rsync -a --exclude work --exclude harness/target --exclude replays --exclude .git --exclude __pycache__ ${XV_VERIF_SRC:-/verif}/ $sb/verif/
sed -i "s#path = \"/repo\"#path = \"$sb/repo\"#" $sb/verif/harness/Cargo.toml
cd $sb/verif
for c in "$@"; do
  XV_REPO=$sb/repo ./check $c --tier $tier > /verif/work/sandbox/$name.$c.log 2>&1; rc=$?
  v=$(grep -c '^VIOLATION' /verif/work/sandbox/$name.$c.log)
  first=$(grep -m1 '^VIOLATION' /verif/work/sandbox/$name.$c.log | sed 's/^VIOLATION property=[A-Z0-9]* replay=[^ ]* *# *//' | cut -c1-200)
  printf "%s\n" "$name $c tier=$tier rc=$rc violations=$v :: $first"
done
cd /
git -C /repo worktree remove --force $sb/repo
rm -rf $sb
git -C /repo worktree prune
