#!/bin/sh
# tools/try_mutant.sh <patch.diff> <tier> <Cxx> [<Cyy> ...]: apply a seeded change to /repo, run the given checks, undo it.
patch=$1; tier=$2; shift 2
cd /repo || exit 2
if [ -n "$(git status --porcelain)" ]; then echo "/repo is not clean"; exit 2; fi
git apply "$patch" || { echo "patch does not apply"; exit 2; }
cd /verif
for c in "$@"; do
  ./check $c --tier $tier > work/mut_$c.log 2>&1
  echo "$c rc=$? violations=$(grep -c '^VIOLATION' work/mut_$c.log) $(grep -m1 '^VIOLATION' work/mut_$c.log | cut -c1-220)"
done
git -C /repo checkout -- .
git -C /repo status --porcelain | head -3
