#!/bin/sh
# tools/confirm_mutant.sh <worktree> <mutant-dir>: independent confirmation of a seeded change in a scratch worktree:
# with the change the suite passes and the demonstration fails; without it the demonstration passes.
wt=$1; m=$2
cd "$wt" || exit 2
git checkout -q -- . ; rm -f tests/demo.rs
git apply "$m/patch.diff" || { echo "APPLY-FAIL"; exit 2; }
suite=$(cargo test --offline --lib 2>&1 | grep -E "^test result" | head -1)
mkdir -p tests; cp "$m/demo.rs" tests/demo.rs
with=$(cargo test --offline --test demo 2>&1 | grep -E "^test result" | head -1)
git checkout -q -- .
without=$(cargo test --offline --test demo 2>&1 | grep -E "^test result" | head -1)
rm -f tests/demo.rs
echo "suite-with-change: $suite"
echo "demo-with-change:  $with"
echo "demo-pristine:     $without"
