-------------------------------- MODULE Bits --------------------------------
(***************************************************************************)
(* Bit strings as plain sequences over {0,1}: the meaning of every          *)
(* bit-string operation of xeh (C04), of the number codecs (C05) and of the  *)
(* parsing cursor (C06/C07).  Positions are relative to the value.           *)
(***************************************************************************)
EXTENDS Naturals, Integers, Sequences

Bit == {0, 1}
Mod(a, b) == a % b
BTake(b, n) == SubSeq(b, 1, n)
BDrop(b, n) == SubSeq(b, n + 1, Len(b))
BSub(b, i, j) == SubSeq(b, i + 1, j)                  \* bits [i, j)
BAppend(a, b) == a \o b
BInsert(a, k, s) == BTake(a, k) \o s \o BDrop(a, k)
BInvert(b) == [i \in 1..Len(b) |-> 1 - b[i]]
Zeros(n) == [i \in 1..n |-> 0]
Rep(x, n) == [i \in 1..n |-> x]
Ceil8(n) == ((n + 7) \div 8) * 8

\* ---- numbers as MSB-first bit patterns of a stated width (no big integers needed)
RECURSIVE ToNat(_)
ToNat(b) == IF b = <<>> THEN 0 ELSE 2 * ToNat(SubSeq(b, 1, Len(b) - 1)) + b[Len(b)]
RECURSIVE FromNat(_, _)
FromNat(v, w) == IF w = 0 THEN <<>> ELSE FromNat(v \div 2, w - 1) \o <<v % 2>>
Pow2(n) == ToNat(<<1>> \o Zeros(n))

\* 8-bit groups of a value, most significant group first; the FIRST group is the short one
\* (that is how a w-bit number splits into bytes: w mod 8 high bits, then whole bytes)
RECURSIVE GroupsMsb(_)
GroupsMsb(b) == IF Len(b) = 0 THEN <<>>
                ELSE LET k == IF Len(b) % 8 = 0 THEN 8 ELSE Len(b) % 8 IN <<BTake(b, k)>> \o GroupsMsb(BDrop(b, k))
RECURSIVE Flatten(_)
Flatten(gs) == IF gs = <<>> THEN <<>> ELSE Head(gs) \o Flatten(Tail(gs))
Reverse(s) == [i \in 1..Len(s) |-> s[Len(s) + 1 - i]]

\* EncodeInt: the w low bits of the value, big-endian = MSB first; little-endian = the 8-bit groups
\* of the MSB-first pattern in reverse order (so the short group comes LAST on the wire)
EncodeBig(bits)    == bits
EncodeLittle(bits) == Flatten(Reverse(GroupsMsb(bits)))
Encode(bits, order) == IF order = "big" THEN bits ELSE EncodeLittle(bits)

\* Decode: inverse permutation.  On the wire (little) the groups are: whole bytes first, short group last.
RECURSIVE GroupsWire(_)
GroupsWire(b) == IF Len(b) = 0 THEN <<>>
                 ELSE LET k == IF Len(b) >= 8 THEN 8 ELSE Len(b) IN <<BTake(b, k)>> \o GroupsWire(BDrop(b, k))
DecodeLittle(wire) == Flatten(Reverse(GroupsWire(wire)))
Decode(wire, order) == IF order = "big" THEN wire ELSE DecodeLittle(wire)     \* MSB-first pattern of the value
=============================================================================
