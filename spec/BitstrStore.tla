----------------------------- MODULE BitstrStore -----------------------------
(***************************************************************************)
(* Implementation-shaped model of xeh::bitstr::Bitstr (src/bitstr.rs):      *)
(* reference-counted byte buffers (owned or borrowed), handles              *)
(* [buf, s, e] = a bit range into a buffer.  Each action is one public       *)
(* operation with its copy-on-write / unique-owner / fast-path case          *)
(* analysis.  ghost[h] carries the plain bit sequence (Bits.tla) every       *)
(* handle must denote; the refinement mapping is Abs.                        *)
(*                                                                          *)
(* Legacy "appendslack": the pinned append kept the slack and the stale      *)
(* bits of a uniquely owned buffer behind range.end.                         *)
(***************************************************************************)
EXTENDS Bits, FiniteSets, TLC, Json

CONSTANTS MaxH, MaxB, MaxDepth, Patterns, Legacy,
          Start       \* "empty": histories from the empty store;  "any": every small layout is an initial state
H == 1..MaxH
B == 1..MaxB
None == [buf |-> 0, s |-> 0, e |-> 0]
Args == {0, 1, 3, 4, 7, 8, 9, 12, 16}       \* bit counts / positions tried by the view operations

VARIABLES bufs,      \* B -> [bits, rc, borrowed]   (rc = 0: free)
          hs,        \* H -> handle or None
          ghost,     \* H -> abstract bit sequence
          dep        \* history length (bounds the exploration)
vars == <<bufs, hs, ghost, dep>>

FreeBuf == [bits |-> <<>>, rc |-> 0, borrowed |-> FALSE]
Abs(h)  == SubSeq(bufs[h.buf].bits, h.s + 1, h.e)
Live(h) == hs[h].buf # 0
FreeH   == {h \in H : ~Live(h)}
FreeB   == {b \in B : bufs[b].rc = 0}
Aligned(h) == h.s % 8 = 0 /\ (h.e - h.s) % 8 = 0
HLen(h) == h.e - h.s
Pad8(bits) == bits \o Zeros(Ceil8(Len(bits)) - Len(bits))

Init == /\ bufs = [b \in B |-> FreeBuf]
        /\ hs = [h \in H |-> None] /\ ghost = [h \in H |-> <<>>] /\ dep = 0

\* Every layout of one or two handles over one or two buffers (ranges over Pos, each buffer owned or borrowed,
\* the second handle absent / sharing the first buffer / on its own buffer): with MaxDepth = 1 every operation is
\* tried on every such layout, including those a short history does not reach (a sole owner that starts late in
\* its buffer, a view behind the end of another, ...).
Pos == {0, 1, 4, 8, 9, 12, 16}
Ranges(p) == {r \in Pos \X Pos : r[1] <= r[2] /\ r[2] <= Len(p)}
InitAny ==
  \E p1 \in Patterns, p2 \in Patterns, bo1 \in BOOLEAN, bo2 \in BOOLEAN, k \in {"none", "same", "other"} :
  \E r1 \in Ranges(p1), r2 \in (IF k = "same" THEN Ranges(p1) ELSE IF k = "other" THEN Ranges(p2) ELSE {<<0, 0>>}) :
    /\ (k # "other" => p2 = p1 /\ ~bo2)            \* unused choices are not multiplied
    /\ bufs = [b \in B |-> IF b = 1 THEN [bits |-> p1, rc |-> IF k = "same" THEN 2 ELSE 1, borrowed |-> bo1]
                            ELSE IF b = 2 /\ k = "other" THEN [bits |-> p2, rc |-> 1, borrowed |-> bo2] ELSE FreeBuf]
    /\ hs = [h \in H |-> IF h = 1 THEN [buf |-> 1, s |-> r1[1], e |-> r1[2]]
                          ELSE IF h = 2 /\ k # "none" THEN [buf |-> IF k = "same" THEN 1 ELSE 2, s |-> r2[1], e |-> r2[2]] ELSE None]
    /\ ghost = [h \in H |-> IF h = 1 THEN SubSeq(p1, r1[1] + 1, r1[2])
                             ELSE IF h = 2 /\ k = "same" THEN SubSeq(p1, r2[1] + 1, r2[2])
                             ELSE IF h = 2 /\ k = "other" THEN SubSeq(p2, r2[1] + 1, r2[2]) ELSE <<>>]
    /\ dep = 0

Layout == [bufs |-> [b \in B |-> [bits |-> bufs[b].bits, rc |-> bufs[b].rc, borrowed |-> IF bufs[b].borrowed THEN 1 ELSE 0]], hs |-> hs]
Emit(op, args) == PrintT(<<"REPLAY", ToJson([pre |-> Layout, op |-> op, args |-> args, post |-> ghost', starts |-> [h \in H |-> hs'[h].s]])>>)

\* pick the smallest free handle / buffer (symmetry reduction by construction)
MinFree(S) == CHOOSE x \in S : \A y \in S : x <= y

FromBytes(borrowed) ==
  /\ FreeH # {} /\ FreeB # {}
  /\ \E p \in Patterns :
       LET h == MinFree(FreeH)  b == MinFree(FreeB) IN
       /\ bufs' = [bufs EXCEPT ![b] = [bits |-> p, rc |-> 1, borrowed |-> borrowed]]
       /\ hs' = [hs EXCEPT ![h] = [buf |-> b, s |-> 0, e |-> Len(p)]]
       /\ ghost' = [ghost EXCEPT ![h] = p]
       /\ Emit(IF borrowed THEN "from_static" ELSE "from_vec", [h |-> h, bits |-> p])

Release(bs, b) == IF bs[b].rc = 1 THEN [bs EXCEPT ![b] = FreeBuf] ELSE [bs EXCEPT ![b].rc = @ - 1]

DropH == \E h \in H : Live(h)
    /\ bufs' = Release(bufs, hs[h].buf)
    /\ hs' = [hs EXCEPT ![h] = None] /\ ghost' = [ghost EXCEPT ![h] = <<>>]
    /\ Emit("drop", [h |-> h])

\* operations that produce a new handle on the same buffer
View(name, h, r, s2, e2, hs2, ghostR, ghostH, args) ==
    /\ hs' = [hs EXCEPT ![r] = [buf |-> hs[h].buf, s |-> s2, e |-> e2], ![h] = hs2]
    /\ bufs' = [bufs EXCEPT ![hs[h].buf].rc = @ + 1]
    /\ ghost' = [ghost EXCEPT ![r] = ghostR, ![h] = ghostH]
    /\ Emit(name, args)

CloneH == \E h \in H : Live(h) /\ FreeH # {} /\
    LET r == MinFree(FreeH) IN View("clone", h, r, hs[h].s, hs[h].e, hs[h], ghost[h], ghost[h], [h |-> h, r |-> r])
ReadH == \E h \in H, n \in Args : Live(h) /\ FreeH # {} /\ n <= HLen(hs[h]) /\
    LET r == MinFree(FreeH) IN
    View("read", h, r, hs[h].s, hs[h].s + n, [hs[h] EXCEPT !.s = @ + n], BTake(ghost[h], n), BDrop(ghost[h], n), [h |-> h, r |-> r, n |-> n])
PeekH == \E h \in H, n \in Args : Live(h) /\ FreeH # {} /\ n <= HLen(hs[h]) /\
    LET r == MinFree(FreeH) IN
    View("peek", h, r, hs[h].s, hs[h].s + n, hs[h], BTake(ghost[h], n), ghost[h], [h |-> h, r |-> r, n |-> n])
SeekH == \E h \in H, n \in Args : Live(h) /\ FreeH # {} /\ n <= HLen(hs[h]) /\
    LET r == MinFree(FreeH) IN
    View("seek", h, r, hs[h].s + n, hs[h].e, hs[h], BDrop(ghost[h], n), ghost[h], [h |-> h, r |-> r, n |-> n])
SubstrH == \E h \in H, i \in Args, j \in Args : Live(h) /\ FreeH # {} /\ i <= j /\ j <= HLen(hs[h]) /\ (i > 0 /\ j < HLen(hs[h])) /\
    LET r == MinFree(FreeH) IN
    View("substr", h, r, hs[h].s + i, hs[h].s + j, hs[h], BSub(ghost[h], i, j), ghost[h], [h |-> h, r |-> r, i |-> i, j |-> j])

\* seek / substr take ABSOLUTE bit positions of the buffer: a position in front of the value's start or behind its end
\* is refused (the value must not give access to the bits around it)
AbsPos == {0, 1, 4, 8, 9, 16}
SeekAbsH == Start = "any" /\ \E h \in H, a \in AbsPos : Live(h) /\ FreeH # {} /\
    LET r == MinFree(FreeH) IN
    IF a >= hs[h].s /\ a <= hs[h].e
    THEN View("seekabs", h, r, a, hs[h].e, hs[h], BDrop(ghost[h], a - hs[h].s), ghost[h], [h |-> h, r |-> r, a |-> a, none |-> 0])
    ELSE UNCHANGED <<bufs, hs, ghost>> /\ Emit("seekabs", [h |-> h, r |-> r, a |-> a, none |-> 1])
SubstrAbsH == Start = "any" /\ \E h \in H, i \in AbsPos, j \in AbsPos : Live(h) /\ FreeH # {} /\ (i < hs[h].s \/ j > hs[h].e \/ i > j) /\
    LET r == MinFree(FreeH) IN
    UNCHANGED <<bufs, hs, ghost>> /\ Emit("substrabs", [h |-> h, r |-> r, i |-> i, j |-> j, none |-> 1])

\* detach(self): the unique owner keeps buffer and range; an empty value becomes Bitstr::new();
\* otherwise the bits are copied left-aligned into a fresh buffer (zero padded)
\* returns <<bufs2, handle2>>; needs a free buffer when it copies
DetachOf(bs, hh) ==
  \* the sole owner keeps buffer and range only when the value starts at bit 0 (Legacy "detachstart": whenever it is the
  \* sole owner - then where a result starts depended on who else held the buffer, visible through open-bitstr / offset)
  IF bs[hh.buf].rc = 1 /\ (hh.s = 0 \/ "detachstart" \in Legacy) THEN <<bs, hh>>
  ELSE LET rel == Release(bs, hh.buf)
           nb == MinFree({b \in B : rel[b].rc = 0})
           bits == IF HLen(hh) = 0 THEN <<>> ELSE Pad8(SubSeq(bs[hh.buf].bits, hh.s + 1, hh.e)) IN
       <<[rel EXCEPT ![nb] = [bits |-> bits, rc |-> 1, borrowed |-> (HLen(hh) = 0)]],
         [buf |-> nb, s |-> 0, e |-> HLen(hh)]>>
CanDetach(bs, hh) == bs[hh.buf].rc = 1 \/ {b \in B : bs[b].rc = 0} # {}

\* append_bits_mut(self, tail) on a uniquely owned handle d (after data_mut(): owned)
AppendMut(bs, d, tb, tailAligned) ==
  LET raw  == bs[d.buf].bits
      base == IF "appendslack" \in Legacy THEN raw
              ELSE Pad8(SubSeq(raw, 1, d.e))                       \* repaired: forget everything behind range.end
      fast == d.s % 8 = 0 /\ (d.e - d.s) % 8 = 0 /\ tailAligned
      res  == IF fast THEN base \o tb                                \* extend_from_slice at the END of the buffer
              ELSE LET want == Ceil8(d.e + Len(tb))
                       sized == IF Len(base) >= want THEN SubSeq(base, 1, want) ELSE base \o Zeros(want - Len(base))
                   IN [i \in 1..want |-> IF i > d.e /\ i <= d.e + Len(tb) /\ tb[i - d.e] = 1 THEN 1 ELSE sized[i]]   \* OR
  IN <<[bs EXCEPT ![d.buf] = [bits |-> res, rc |-> 1, borrowed |-> FALSE]], [d EXCEPT !.e = d.e + Len(tb)]>>

AppendH == \E h \in H, t \in H : Live(h) /\ Live(t) /\ h # t /\ CanDetach(bufs, hs[h]) /\
    LET tb == Abs(hs[t])
        tal == Aligned(hs[t])
        d  == DetachOf(bufs, hs[h])
        r  == AppendMut(d[1], d[2], tb, tal) IN
    /\ bufs' = r[1] /\ hs' = [hs EXCEPT ![h] = r[2]]
    /\ ghost' = [ghost EXCEPT ![h] = BAppend(ghost[h], ghost[t])]
    /\ Emit("append", [h |-> h, t |-> t])

InvertH == \E h \in H : Live(h) /\ CanDetach(bufs, hs[h]) /\
    LET d == DetachOf(bufs, hs[h])
        bs == d[1]  hh == d[2]
        flipped == [i \in 1..Len(bs[hh.buf].bits) |-> IF i > hh.s /\ i <= hh.e THEN 1 - bs[hh.buf].bits[i] ELSE bs[hh.buf].bits[i]] IN
    /\ bufs' = [bs EXCEPT ![hh.buf] = [bits |-> flipped, rc |-> 1, borrowed |-> FALSE]]
    /\ hs' = [hs EXCEPT ![h] = hh]
    /\ ghost' = [ghost EXCEPT ![h] = BInvert(ghost[h])]
    /\ Emit("invert", [h |-> h])

DetachH == \E h \in H : Live(h) /\ CanDetach(bufs, hs[h]) /\
    LET d == DetachOf(bufs, hs[h]) IN
    /\ bufs' = d[1] /\ hs' = [hs EXCEPT ![h] = d[2]] /\ ghost' = ghost
    /\ Emit("detach", [h |-> h])

\* insert(self, k, s): split_at makes two clones, so left.detach() always copies
InsertH == \E h \in H, t \in H, k \in Args : Live(h) /\ Live(t) /\ h # t /\ k <= HLen(hs[h]) /\ FreeB # {} /\
    LET hh == hs[h]
        nb == MinFree(FreeB)
        left  == SubSeq(bufs[hh.buf].bits, hh.s + 1, hh.s + k)
        right == SubSeq(bufs[hh.buf].bits, hh.s + k + 1, hh.e)
        bs0 == [bufs EXCEPT ![nb] = [bits |-> IF k = 0 THEN <<>> ELSE Pad8(left), rc |-> 1, borrowed |-> FALSE]]
        d0  == [buf |-> nb, s |-> 0, e |-> k]
        r1  == AppendMut(bs0, d0, Abs(hs[t]), Aligned(hs[t]))
        rightAligned == (hh.s + k) % 8 = 0 /\ (hh.e - hh.s - k) % 8 = 0
        r2  == AppendMut(r1[1], r1[2], right, rightAligned) IN
    /\ bufs' = Release(r2[1], hh.buf)
    /\ hs' = [hs EXCEPT ![h] = r2[2]]
    /\ ghost' = [ghost EXCEPT ![h] = BInsert(ghost[h], k, ghost[t])]
    /\ Emit("insert", [h |-> h, t |-> t, k |-> k])

Next == dep < MaxDepth /\ dep' = dep + 1 /\ (FromBytes(FALSE) \/ FromBytes(TRUE) \/ DropH \/ CloneH \/ ReadH \/ PeekH \/ SeekH \/ SubstrH \/ SeekAbsH \/ SubstrAbsH
        \/ AppendH \/ InvertH \/ DetachH \/ InsertH)
Spec == (IF Start = "any" THEN InitAny ELSE Init) /\ [][Next]_vars

\* C04 on the design: every live handle denotes exactly its abstract bit sequence
\* (so every operation returned what the plain-sequence operation returns, and no operand changed)
Refines == \A h \in H : Live(h) => Abs(hs[h]) = ghost[h]
RcOk == \A b \in B : bufs[b].rc = Cardinality({h \in H : hs[h].buf = b})
Depth == TLCGet("level") <= MaxDepth
=============================================================================
