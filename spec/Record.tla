------------------------------- MODULE Record -------------------------------
(***************************************************************************)
(* Records of typed fields (C07): a field is [k, w, signed, order, value]   *)
(* with value the MSB-first pattern of an integer / float field, or the bits of *)
(* a bit-string / string / byte-list field.  Pack = concatenation of the     *)
(* fields' wire bits; ParseOk = reading the packed string field by field     *)
(* returns the values and ends exactly at the end.                           *)
(***************************************************************************)
EXTENDS Bits

Numeric(f) == f.k \in {"int", "flt"}     \* flt: value is the IEEE-754 bit pattern (32 or 64 bits)
Wire(f) == IF Numeric(f) THEN Encode(f.value, f.order) ELSE f.value
RECURSIVE Pack(_)
Pack(fs) == IF fs = <<>> THEN <<>> ELSE Wire(Head(fs)) \o Pack(Tail(fs))
RECURSIVE SumW(_)
SumW(fs) == IF fs = <<>> THEN 0 ELSE Head(fs).w + SumW(Tail(fs))

\* parse back: field k starts at the sum of the preceding widths
RECURSIVE ParseOk(_, _, _)
ParseOk(fs, packed, off) ==
  IF fs = <<>> THEN off = Len(packed)                                   \* remain = 0
  ELSE LET f == Head(fs)  got == BSub(packed, off, off + f.w) IN
       /\ (IF Numeric(f) THEN Decode(got, f.order) = f.value ELSE got = f.value)
       /\ ParseOk(Tail(fs), packed, off + f.w)

=============================================================================
