-------------------------------- MODULE Let --------------------------------
(***************************************************************************)
(* `let` - destructuring by pattern (state.rs, build_let_xxx).  The compiler *)
(* turns the pattern text into a straight line of native calls; this module *)
(* says what a pattern MEANS, as a structural match of a value against a    *)
(* pattern tree:                                                            *)
(*                                                                          *)
(*   P ::= name                    binds the value (tags and all)           *)
(*       | literal                 the value must equal it (tag-insensitive)*)
(*       | [ P1 .. Pk ]            a vector of exactly k items              *)
(*       | [ P1 .. Pk & R ]        at least k items; R matches the rest     *)
(*       | { key1 P1 .. keyn Pn }  a map holding every listed key           *)
(*       | ^ T P                   T (a name or a map pattern) matches the  *)
(*                                 value's tag map (nil if it has none),    *)
(*                                 then P matches the value itself          *)
(*                                                                          *)
(* Names are bound left to right as they appear in the text; a failing      *)
(* match stops there: bindings made so far stay, later ones are not made.   *)
(* Order of the checks as in the code: the items of a vector pattern are    *)
(* matched first (an absent item is a Bounds error), its length is checked  *)
(* at the closing bracket (Assert).  A missing map key is a ControlFlow     *)
(* error (sic, error.rs map_missing_key), a value of the wrong shape a Type *)
(* error.                                                                   *)
(***************************************************************************)
EXTENDS Collections

PName        == [p |-> "name"]
PLit(c)      == [p |-> "lit", c |-> c]
PNone        == [p |-> "none"]
PVec(es, r)  == [p |-> "vec", es |-> es, rest |-> r]
PMap(ents)   == [p |-> "map", ents |-> ents]          \* sequence of <<key literal, pattern>>
PTag(tp, q)  == [p |-> "tag", tp |-> tp, q |-> q]

Res(b, e)  == [b |-> b, err |-> e]
OkR(r)     == r.err = "none"
\* sequential composition: r, then (if it succeeded) s
Then(r, s) == IF OkR(r) THEN Res(r.b \o s.b, s.err) ELSE r

TagsOf(v) == IF v.ty = "tag" THEN MapV(v.tags) ELSE NilV

\* a key literal whose type differs from the type of a key the map holds is outside the judged domain: the map is a
\* search tree over an order that calls cells of different types equal (known finding C12 map-unorderable-keys)
KeyComparable(kv, k) == \A i \in 1..Len(kv) : Untag(kv[i][1]).ty = k.ty

RECURSIVE Match(_, _)
RECURSIVE MatchItems(_, _, _)
RECURSIVE MatchEntries(_, _, _)
Match(v, P) ==
  CASE P.p = "name" -> Res(<<v>>, "none")
    [] P.p = "lit"  -> Res(<<>>, IF CellEq(v, P.c) THEN "none" ELSE "Assert")
    [] P.p = "vec"  ->
         IF Untag(v).ty # "vec" THEN Res(<<>>, "Type")
         ELSE LET items == Untag(v).items
                  k == Len(P.es)
                  r1 == MatchItems(items, P.es, 1) IN
              IF ~OkR(r1) THEN r1
              ELSE IF P.rest.p = "none" THEN Res(r1.b, IF Len(items) = k THEN "none" ELSE "Assert")
              ELSE Then(r1, Match(VecV(SubSeq(items, k + 1, Len(items))), P.rest))
    [] P.p = "map"  ->
         IF Untag(v).ty # "map" THEN Res(<<>>, "Type") ELSE MatchEntries(Untag(v).kv, P.ents, 1)
    [] P.p = "tag"  -> Then(Match(TagsOf(v), P.tp), Match(v, P.q))
MatchItems(items, es, i) ==
  IF i > Len(es) THEN Res(<<>>, "none")
  ELSE IF i > Len(items) THEN Res(<<>>, "Bounds")
  ELSE Then(Match(items[i], es[i]), MatchItems(items, es, i + 1))
MatchEntries(kv, ents, i) ==
  IF i > Len(ents) THEN Res(<<>>, "none")
  ELSE IF ~KeyComparable(kv, ents[i][1]) THEN Res(<<>>, "skip")
  ELSE IF MFind(kv, ents[i][1]) = 0 THEN Res(<<>>, "ControlFlow")
  ELSE Then(Match(MGet(kv, ents[i][1]), ents[i][2]), MatchEntries(kv, ents, i + 1))

\* ---- the pattern as source text ("N" stands for a name; the k-th N is the k-th bound name)
LitText(c) == IF c.ty = "int" THEN ToString(c.i) ELSE "\"" \o c.s \o "\""
RECURSIVE PatToks(_)
RECURSIVE SeqToks(_, _)
RECURSIVE EntToks(_, _)
PatToks(P) ==
  CASE P.p = "name" -> <<"N">>
    [] P.p = "lit"  -> <<LitText(P.c)>>
    [] P.p = "vec"  -> <<"[">> \o SeqToks(P.es, 1) \o (IF P.rest.p = "none" THEN <<>> ELSE <<"&">> \o PatToks(P.rest)) \o <<"]">>
    [] P.p = "map"  -> <<"{">> \o EntToks(P.ents, 1) \o <<"}">>
    [] P.p = "tag"  -> <<"^">> \o PatToks(P.tp) \o PatToks(P.q)
SeqToks(es, i) == IF i > Len(es) THEN <<>> ELSE PatToks(es[i]) \o SeqToks(es, i + 1)
EntToks(ents, i) == IF i > Len(ents) THEN <<>> ELSE <<LitText(ents[i][1])>> \o PatToks(ents[i][2]) \o EntToks(ents, i + 1)

NameCount(toks) == Cardinality({i \in 1..Len(toks) : toks[i] = "N"})
=============================================================================
