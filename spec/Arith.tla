-------------------------------- MODULE Arith --------------------------------
(***************************************************************************)
(* W-bit two's-complement integer arithmetic on MSB-first bit sequences     *)
(* (generic in the width W): the meaning of xeh's integer words at W = 128,  *)
(* where TLC's own integers cannot go.  MC_C09 proves by exhaustion at small *)
(* W that every operator agrees with mathematical integer arithmetic (exact  *)
(* when representable, wrapped otherwise; truncating division; remainder     *)
(* with the sign of the dividend; arithmetic right shift).                   *)
(***************************************************************************)
EXTENDS Bits

Sign(a)    == a[1]
ZeroB(w)   == Zeros(w)
OneB(w)    == Zeros(w - 1) \o <<1>>
IsZero(a)  == \A i \in 1..Len(a) : a[i] = 0
NotB(a)    == [i \in 1..Len(a) |-> 1 - a[i]]
AndB(a, b) == [i \in 1..Len(a) |-> IF a[i] = 1 /\ b[i] = 1 THEN 1 ELSE 0]
OrB(a, b)  == [i \in 1..Len(a) |-> IF a[i] = 1 \/ b[i] = 1 THEN 1 ELSE 0]
XorB(a, b) == [i \in 1..Len(a) |-> IF a[i] # b[i] THEN 1 ELSE 0]
RECURSIVE PopCount(_)
PopCount(a) == IF a = <<>> THEN 0 ELSE a[1] + PopCount(Tail(a))

\* ripple-carry addition from the least significant bit: returns <<carry out, sum bits>>
RECURSIVE AddC(_, _, _)
AddC(a, b, cin) ==
  IF a = <<>> THEN <<cin, <<>>>>
  ELSE LET n == Len(a)
           s == a[n] + b[n] + cin
           r == AddC(SubSeq(a, 1, n - 1), SubSeq(b, 1, n - 1), s \div 2) IN
       <<r[1], Append(r[2], s % 2)>>
AddB(a, b) == AddC(a, b, 0)[2]                       \* wrapped
NegB(a)    == AddC(NotB(a), ZeroB(Len(a)), 1)[2]
SubB(a, b) == AddC(a, NotB(b), 1)[2]
AddOverflows(a, b) == Sign(a) = Sign(b) /\ Sign(AddB(a, b)) # Sign(a)
SubOverflows(a, b) == Sign(a) # Sign(b) /\ Sign(SubB(a, b)) # Sign(a)
IsMin(a)   == a[1] = 1 /\ \A i \in 2..Len(a) : a[i] = 0
NegOverflows(a) == IsMin(a)
AbsB(a)    == IF Sign(a) = 1 THEN NegB(a) ELSE a

SignExt(a, w) == Rep(Sign(a), w - Len(a)) \o a
ZeroExt(a, w) == Zeros(w - Len(a)) \o a
ShlB(a, k) == BDrop(a, k) \o Zeros(k)                                  \* k < Len(a)
SarB(a, k) == Rep(Sign(a), k) \o BTake(a, Len(a) - k)                  \* arithmetic right shift
ShrU(a, k) == Zeros(k) \o BTake(a, Len(a) - k)

\* signed comparison
LtU(a, b) == \E i \in 1..Len(a) : a[i] = 0 /\ b[i] = 1 /\ \A j \in 1..(i - 1) : a[j] = b[j]
LtS(a, b) == IF Sign(a) # Sign(b) THEN Sign(a) = 1 ELSE LtU(a, b)
MinS(a, b) == IF LtS(b, a) THEN b ELSE a
MaxS(a, b) == IF LtS(a, b) THEN b ELSE a

\* shift-and-add multiplication, wrapped to the width of the operands
RECURSIVE MulAcc(_, _, _, _)
MulAcc(a, b, k, acc) ==      \* adds a << (k-1) for every set bit k of b, counted from the LSB
  IF k > Len(b) THEN acc
  ELSE MulAcc(a, b, k + 1, IF b[Len(b) + 1 - k] = 1 THEN AddB(acc, ShlB(a, k - 1)) ELSE acc)
MulB(a, b) == MulAcc(a, b, 1, ZeroB(Len(a)))
\* exact product in twice the width, to know whether the W-bit result is representable
MulWide(a, b) == LET w == Len(a) IN MulB(SignExt(a, 2 * w), SignExt(b, 2 * w))
MulOverflows(a, b) == LET w == Len(a)  p == MulWide(a, b) IN ~(\A i \in 1..(w + 1) : p[i] = p[1])

\* unsigned restoring division: <<quotient, remainder>>, both Len(n) bits
RECURSIVE DivU(_, _, _, _, _)
DivU(n, d, k, q, r) ==
  IF k > Len(n) THEN <<q, r>>
  ELSE LET r1 == BDrop(r, 1) \o <<n[k]>>       \* shift the next bit of the dividend in
           ge == ~LtU(r1, d) IN
       DivU(n, d, k + 1, BDrop(q, 1) \o <<IF ge THEN 1 ELSE 0>>, IF ge THEN SubB(r1, d) ELSE r1)
\* truncating signed division and remainder (sign of the dividend); magnitudes in W + 1 bits so that MIN is safe
DivRem(a, b) ==
  LET w  == Len(a)
      ua == AbsB(SignExt(a, w + 1))  ub == AbsB(SignExt(b, w + 1))
      qr == DivU(ua, ub, 1, Zeros(w + 1), Zeros(w + 1))
      q  == IF Sign(a) # Sign(b) THEN NegB(qr[1]) ELSE qr[1]
      r  == IF Sign(a) = 1 THEN NegB(qr[2]) ELSE qr[2] IN
  <<BDrop(q, 1), BDrop(r, 1)>>                    \* wrapped to W bits
DivB(a, b) == DivRem(a, b)[1]
RemB(a, b) == DivRem(a, b)[2]
DivOverflows(a, b) == IsMin(a) /\ \A i \in 1..Len(b) : b[i] = 1      \* MIN / -1

\* ---- connection with TLA+ integers (used at small widths only)
ToInt(a)  == IF Sign(a) = 1 THEN ToNat(a) - Pow2(Len(a)) ELSE ToNat(a)
FromInt(v, w) == FromNat(IF v < 0 THEN v + Pow2(w) ELSE v, w)
=============================================================================
