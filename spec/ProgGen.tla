------------------------------ MODULE ProgGen ------------------------------
(***************************************************************************)
(* Program generation inside TLC (DESIGN 2.5): programs are produced by     *)
(* actions, one phrase at a time, with a ghost stack of open constructs so   *)
(* that only grammar-derivable token sequences appear.  Shared by the        *)
(* bounded instances MC_C01, MC_C02, MC_C14, MC_C15, MC_C17.                 *)
(***************************************************************************)
EXTENDS Values, TLC, Json

CONSTANTS Frag,        \* which phrase alphabet
          Budget,      \* number of phrases
          Legacy

X == INSTANCE Xeh
S == INSTANCE Src

L(n)  == X!TLit(IntV(n), 0)
Wd(s) == X!TWord(s, 0)

\* a phrase: tokens + the grammar rule that says where it may appear
Ph(rule, toks) == [rule |-> rule, toks |-> toks]
Plain(toks) == Ph("plain", toks)

Alphabet ==
  CASE Frag = "cond" ->
        << Plain(<<L(1)>>), Plain(<<L(2)>>), Plain(<<Wd("true")>>), Plain(<<Wd("false")>>), Plain(<<Wd("nil")>>),
           Plain(<<Wd("dup")>>), Plain(<<Wd("drop")>>), Plain(<<Wd("+")>>), Plain(<<Wd("==")>>), Plain(<<Wd("print")>>),
           Ph("if", <<Wd("if")>>), Ph("else", <<Wd("else")>>), Ph("then", <<Wd("then")>>),
           Ph("if", <<Wd("true"), Wd("if")>>), Ph("if", <<Wd("false"), Wd("if")>>) >>
    [] Frag = "begin" ->
        << Plain(<<L(0)>>), Plain(<<L(1)>>), Plain(<<Wd("true")>>), Plain(<<Wd("false")>>),
           Plain(<<Wd("dup")>>), Plain(<<Wd("drop")>>), Plain(<<L(1), Wd("+")>>), Plain(<<Wd("dup"), L(2), Wd("<")>>),
           Plain(<<Wd("dup"), L(2), Wd(">=")>>),
           Ph("beginU", <<Wd("begin")>>), Ph("beginR", <<Wd("begin")>>), Ph("beginW", <<Wd("begin")>>),
           Ph("until", <<Wd("until")>>), Ph("while", <<Wd("while")>>), Ph("repeat", <<Wd("repeat")>>),
           Ph("if", <<Wd("if")>>), Ph("then", <<Wd("then")>>), Ph("break", <<Wd("break")>>) >>
    [] Frag = "do" ->
        << Plain(<<L(1)>>), Plain(<<Wd("I")>>), Plain(<<Wd("J")>>), Plain(<<Wd("K")>>), Plain(<<Wd("drop")>>), Plain(<<Wd("+")>>),
           Plain(<<Wd("print")>>), Plain(<<Wd("I"), L(1), Wd("==")>>), Plain(<<Wd("nil")>>),
           Ph("do", <<L(2), L(0), Wd("do")>>), Ph("do", <<L(3), L(1), Wd("do")>>), Ph("do", <<L(0), L(0), Wd("do")>>),
           Ph("do", <<Wd("do")>>), Ph("loop", <<Wd("loop")>>),
           Ph("if", <<Wd("if")>>), Ph("else", <<Wd("else")>>), Ph("then", <<Wd("then")>>), Ph("break", <<Wd("break")>>) >>
    [] Frag = "def" ->
        << Plain(<<L(1)>>), Plain(<<L(2)>>), Plain(<<Wd("+")>>), Plain(<<Wd("drop")>>), Plain(<<Wd("dup")>>),
           Ph("def", <<Wd(":"), Wd("f")>>), Ph("def", <<Wd(":"), Wd("g")>>), Ph("enddef", <<Wd(";")>>),
           Ph("call", <<Wd("f")>>), Ph("call", <<Wd("g")>>),
           Ph("local", <<Wd("local"), Wd("x")>>), Ph("local", <<Wd("local"), Wd("y")>>),
           Ph("lref", <<Wd("x")>>), Ph("lref", <<Wd("y")>>),
           Ph("if", <<Wd("dup"), L(2), Wd("<"), Wd("if")>>), Ph("then", <<Wd("then")>>),
           Ph("do", <<L(2), L(0), Wd("do")>>), Ph("loop", <<Wd("loop")>>), Plain(<<Wd("I")>>) >>
    [] Frag = "case" ->
        << Plain(<<L(1)>>), Plain(<<L(2)>>), Plain(<<Wd("nil")>>), Plain(<<Wd("drop")>>), Plain(<<Wd("dup")>>), Plain(<<Wd("print")>>),
           Ph("case", <<Wd("case")>>), Ph("of", <<L(1), Wd("of")>>), Ph("of", <<L(2), Wd("of")>>), Ph("of", <<Wd("of")>>),
           Ph("endof", <<Wd("endof")>>), Ph("endcase", <<Wd("endcase")>>),
           Ph("var", <<Wd("var"), Wd("v")>>), Ph("var", <<Wd("var"), Wd("u")>>),
           Ph("setvar", <<Wd("!"), Wd("v")>>), Ph("setvar", <<Wd("!"), Wd("u")>>),
           Ph("vref", <<Wd("v")>>), Ph("vref", <<Wd("u")>>),
           Ph("beginR", <<Wd("begin")>>), Ph("repeat", <<Wd("repeat")>>), Ph("break", <<Wd("break")>>) >>
    [] Frag = "zoo" ->
        << Plain(<<L(1)>>), Plain(<<L(2)>>), Plain(<<Wd("over")>>), Plain(<<Wd("rot")>>), Plain(<<Wd("swap")>>), Plain(<<Wd("dup")>>),
           Plain(<<Wd("drop")>>), Plain(<<Wd("+")>>), Plain(<<Wd("I")>>),
           Ph("vec", <<Wd("[")>>), Ph("endvec", <<Wd("]")>>), Plain(<<Wd("unbox")>>), Plain(<<L(2), Wd("collect")>>),
           Ph("do", <<Wd("foreach")>>), Ph("do", <<L(2), L(0), Wd("do")>>), Ph("loop", <<Wd("loop")>>) >>
    [] Frag = "zoo2" ->
        << Plain(<<L(1)>>), Plain(<<Wd("I")>>), Plain(<<Wd("drop")>>), Plain(<<Wd("dup")>>),
           Ph("def", <<Wd(":"), Wd("f")>>), Ph("enddef", <<Wd(";")>>), Ph("call", <<Wd("f")>>),
           Ph("local", <<Wd("local"), Wd("x")>>), Ph("lref", <<Wd("x")>>),
           Ph("do", <<L(2), L(0), Wd("do")>>), Ph("loop", <<Wd("loop")>>),
           Ph("if", <<Wd("I"), L(1), Wd("=="), Wd("if")>>), Ph("then", <<Wd("then")>>), Ph("break", <<Wd("break")>>),
           Ph("var", <<Wd("var"), Wd("v")>>), Ph("setvar", <<Wd("!"), Wd("v")>>), Ph("vref", <<Wd("v")>>),
           Ph("case", <<Wd("case")>>), Ph("of", <<L(1), Wd("of")>>), Ph("endof", <<Wd("endof")>>), Ph("endcase", <<Wd("endcase")>>) >>
    [] Frag = "grow" ->
        << Plain(<<L(1)>>), Plain(<<Wd("dup")>>), Plain(<<Wd("drop")>>), Plain(<<Wd("unbox")>>), Plain(<<L(2), Wd("collect")>>),
           Plain(<<Wd("over")>>), Plain(<<Wd("depth")>>),
           Ph("vec", <<Wd("[")>>), Ph("endvec", <<Wd("]")>>),
           Ph("beginR", <<Wd("begin")>>), Ph("repeat", <<Wd("repeat")>>),
           Ph("do", <<L(3), L(0), Wd("do")>>), Ph("loop", <<Wd("loop")>>),
           Ph("def", <<Wd(":"), Wd("f")>>), Ph("enddef", <<Wd(";")>>), Ph("call", <<Wd("f")>>),
           Ph("var", <<Wd("var"), Wd("v")>>), Ph("var", <<Wd("var"), Wd("u")>>), Ph("vref", <<Wd("v")>>),
           Ph("meta", <<Wd("#(")>>), Ph("endmeta", <<Wd("#)")>>) >>
    [] Frag = "blame" ->
        << Plain(<<L(1)>>), Plain(<<L(0)>>), Plain(<<Wd("drop")>>), Plain(<<Wd("+")>>), Plain(<<Wd("/")>>), Plain(<<Wd("foo")>>), Plain(<<Wd("I")>>),
           Ph("if", <<Wd("true"), Wd("if")>>), Ph("if", <<Wd("if")>>), Ph("else", <<Wd("else")>>), Ph("then", <<Wd("then")>>),
           Ph("do", <<L(2), L(0), Wd("do")>>), Ph("loop", <<Wd("loop")>>),
           Ph("def", <<Wd(":"), Wd("f")>>), Ph("enddef", <<Wd(";")>>), Ph("call", <<Wd("f")>>),
           Ph("beginU", <<Wd("begin")>>), Ph("until", <<Wd("until")>>),
           Ph("local", <<Wd("local"), Wd("x")>>), Ph("lref", <<Wd("x")>>) >>
    [] Frag = "locloop" ->      \* locals re-initialised inside loops, in called definitions (the reverse log must keep the overwritten value)
        << Ph("def", <<Wd(":"), Wd("f")>>), Ph("enddef", <<Wd(";")>>), Ph("call", <<Wd("f")>>),
           Ph("do", <<L(2), L(0), Wd("do")>>), Ph("loop", <<Wd("loop")>>),
           Ph("local", <<Wd("I"), Wd("local"), Wd("x")>>), Ph("local", <<L(7), Wd("local"), Wd("x")>>), Ph("local", <<L(8), Wd("local"), Wd("y")>>),
           Ph("lref", <<Wd("x")>>), Ph("lref", <<Wd("y")>>), Plain(<<Wd("drop")>>) >>
    [] Frag = "late" ->         \* forward references: bound when first called (the compiled code patches itself)
        << Plain(<<L(1)>>), Plain(<<L(2)>>), Plain(<<Wd("+")>>), Plain(<<Wd("drop")>>),
           Ph("late", <<Wd("late"), Wd("g")>>), Ph("late", <<Wd("late"), Wd("f")>>),
           Ph("def", <<Wd(":"), Wd("f")>>), Ph("def", <<Wd(":"), Wd("g")>>), Ph("enddef", <<Wd(";")>>),
           Ph("call", <<Wd("f")>>), Ph("call", <<Wd("g")>>),
           Ph("var", <<Wd("var"), Wd("g")>>), Ph("setvar", <<Wd("!"), Wd("g")>>),
           Ph("if", <<Wd("dup"), L(2), Wd("<"), Wd("if")>>), Ph("then", <<Wd("then")>>) >>
    [] Frag = "metalim" ->      \* growth inside meta blocks (the hidden outer stack counts towards the stack limit)
        << Plain(<<L(1)>>), Plain(<<Wd("dup")>>), Plain(<<Wd("drop")>>), Plain(<<Wd("+")>>), Plain(<<Wd("over")>>),
           Ph("meta", <<Wd("#(")>>), Ph("endmeta", <<Wd("#)")>>), Ph("vec", <<Wd("[")>>), Ph("endvec", <<Wd("]")>>) >>
    [] Frag = "mix" ->
        << Plain(<<L(1)>>), Plain(<<L(0)>>), Plain(<<Wd("dup")>>), Plain(<<Wd("+")>>), Plain(<<Wd("I")>>), Plain(<<Wd("print")>>),
           Ph("vec", <<Wd("[")>>), Ph("endvec", <<Wd("]")>>), Plain(<<Wd("depth")>>), Plain(<<Wd("length")>>),
           Ph("if", <<Wd("if")>>), Ph("else", <<Wd("else")>>), Ph("then", <<Wd("then")>>),
           Ph("beginR", <<Wd("begin")>>), Ph("beginW", <<Wd("begin")>>), Ph("while", <<Wd("dup"), L(2), Wd("<"), Wd("while")>>),
           Ph("repeat", <<Wd("repeat")>>), Ph("break", <<Wd("break")>>),
           Ph("do", <<L(2), L(0), Wd("do")>>), Ph("loop", <<Wd("loop")>>),
           Ph("def", <<Wd(":"), Wd("f")>>), Ph("enddef", <<Wd(";")>>), Ph("call", <<Wd("f")>>),
           Ph("case", <<Wd("case")>>), Ph("of", <<L(1), Wd("of")>>), Ph("endof", <<Wd("endof")>>), Ph("endcase", <<Wd("endcase")>>) >>

VARIABLES toks,     \* the program so far
          open,     \* ghost stack of open constructs
          n,        \* phrases used
          done
vars == <<toks, open, n, done>>

Top == open[Len(open)]
Has(k) == \E i \in 1..Len(open) : open[i] = k
Names(kw) == {toks[i + 1].s : i \in {j \in 1..(Len(toks) - 1) : toks[j].t = "w" /\ toks[j].s = kw}}

\* may `break` appear here?  innermost loop reachable through if/else/case/of only
RECURSIVE BreakOk(_)
BreakOk(i) == IF i < 1 THEN FALSE
              ELSE IF open[i] \in {"do", "while", "beginR"} THEN TRUE
              ELSE IF open[i] \in {"if", "else", "case", "of"} THEN BreakOk(i - 1) ELSE FALSE

Allowed(ph) ==
  CASE ph.rule = "plain"   -> ~(open # <<>> /\ Top = "case")           \* code directly between `case` and `of` is the default branch: allowed only via "of"-less tail, kept simple
    [] ph.rule = "if"      -> TRUE
    [] ph.rule = "else"    -> open # <<>> /\ Top = "if"
    [] ph.rule = "then"    -> open # <<>> /\ Top \in {"if", "else"}
    [] ph.rule = "case"    -> TRUE
    [] ph.rule = "of"      -> open # <<>> /\ Top = "case"
    [] ph.rule = "endof"   -> open # <<>> /\ Top = "of"
    [] ph.rule = "endcase" -> open # <<>> /\ Top = "case"
    [] ph.rule \in {"beginU", "beginR", "beginW"} -> TRUE
    [] ph.rule = "until"   -> open # <<>> /\ Top = "beginU"
    [] ph.rule = "while"   -> open # <<>> /\ Top = "beginW"
    [] ph.rule = "repeat"  -> open # <<>> /\ Top \in {"beginR", "while"}
    [] ph.rule = "break"   -> BreakOk(Len(open))
    [] ph.rule = "do"      -> TRUE
    [] ph.rule = "loop"    -> open # <<>> /\ Top = "do"
    [] ph.rule = "def"     -> TRUE
    [] ph.rule = "vec"     -> TRUE
    [] ph.rule = "meta"    -> ~Has("meta")
    [] ph.rule = "endmeta" -> open # <<>> /\ Top = "meta"
    [] ph.rule = "endvec"  -> open # <<>> /\ Top = "vec"
    [] ph.rule = "enddef"  -> open # <<>> /\ Top = "def"
    [] ph.rule = "call"    -> ph.toks[1].s \in Names(":") \cup Names("late")
    [] ph.rule = "late"    -> TRUE
    [] ph.rule = "local"   -> Has("def")
    [] ph.rule = "lref"    -> Has("def") /\ ph.toks[1].s \in Names("local")
    [] ph.rule = "var"     -> open = <<>>
    [] ph.rule = "setvar"  -> ph.toks[2].s \in Names("var")
    [] ph.rule = "vref"    -> ph.toks[1].s \in Names("var")

Effect(ph) ==
  CASE ph.rule \in {"if", "case", "beginU", "beginR", "beginW", "do", "def", "vec", "meta"} -> Append(open, ph.rule)
    [] ph.rule = "of"    -> Append(open, "of")
    [] ph.rule = "else"  -> [open EXCEPT ![Len(open)] = "else"]
    [] ph.rule = "while" -> [open EXCEPT ![Len(open)] = "while"]
    [] ph.rule \in {"then", "endof", "endcase", "until", "repeat", "loop", "enddef", "endvec", "endmeta"} -> Front(open)
    [] OTHER -> open

Init == toks = <<>> /\ open = <<>> /\ n = 0 /\ done = FALSE

Gen == /\ ~done /\ n < Budget
       /\ \E i \in 1..Len(Alphabet) :
            /\ Allowed(Alphabet[i])
            /\ Len(open) + (IF Alphabet[i].rule \in {"if", "case", "beginU", "beginR", "beginW", "do", "def", "of", "vec", "meta"} THEN 1 ELSE 0) <= Budget - n
            /\ toks' = toks \o Alphabet[i].toks
            /\ open' = Effect(Alphabet[i])
       /\ n' = n + 1 /\ done' = FALSE

Finish == ~done /\ open = <<>> /\ toks # <<>> /\ done' = TRUE /\ UNCHANGED <<toks, open, n>>

GenNext == Gen \/ Finish


TokText(t) == IF t.t = "w" THEN t.s ELSE IF t.v.ty = "int" THEN ToString(t.v.i) ELSE "?"
SrcText == [i \in 1..Len(toks) |-> TokText(toks[i])]
=============================================================================
