-------------------------------- MODULE Src --------------------------------
(***************************************************************************)
(* The reference meaning of a source text: a direct structural evaluation  *)
(* of the token sequence.  Control structures are found by matching         *)
(* brackets the textbook way (nesting counters), names are resolved by      *)
(* textual scope; there is no bytecode, no jump arithmetic, no flow stack.  *)
(* This is the oracle of C01 (and of every property that needs "what the    *)
(* source says"); it shares nothing with Xeh.tla's compiler and VM except   *)
(* the cell representation.                                                 *)
(*                                                                          *)
(* Judged grammar (DESIGN 5/C01):  literals, stack/arithmetic/comparison    *)
(* words, if [else] then, case (x of .. endof)* .. endcase, begin..until,   *)
(* begin..repeat, begin..while..repeat, do..loop with I J K, break inside   *)
(* if/case bodies nested in begin..repeat / after `while` / do..loop,       *)
(* `: name .. ;` (nested, recursive, redefined), `local x` in definitions,  *)
(* `var x` at top level, `! x`, `[ .. ]`, `late name` (bound at first call). *)
(***************************************************************************)
EXTENDS Values, TLC

Openers == {"if", "case", "begin", "do", ":", "["}
Closers == {"then", "endcase", "until", "repeat", "loop", ";", "]"}
LoopOpeners == {"begin", "do"}

W(toks, i) == IF toks[i].t = "w" THEN toks[i].s ELSE ""

\* first j > i at nesting depth 0 whose word is in `targets` (0 if none)
RECURSIVE ScanFwd(_, _, _, _)
ScanFwd(toks, j, depth, targets) ==
  IF j > Len(toks) THEN 0
  ELSE LET w == W(toks, j) IN
       IF depth = 0 /\ w \in targets THEN j
       ELSE IF w \in Openers THEN ScanFwd(toks, j + 1, depth + 1, targets)
       ELSE IF w \in Closers THEN (IF depth = 0 THEN 0 ELSE ScanFwd(toks, j + 1, depth - 1, targets))
       ELSE ScanFwd(toks, j + 1, depth, targets)
MatchFwd(toks, i, targets) == ScanFwd(toks, i + 1, 0, targets)

\* the opener matching the closer at i
RECURSIVE ScanBack(_, _, _)
ScanBack(toks, j, depth) ==
  IF j < 1 THEN 0
  ELSE LET w == W(toks, j) IN
       IF w \in Closers THEN ScanBack(toks, j - 1, depth + 1)
       ELSE IF w \in Openers THEN (IF depth = 0 THEN j ELSE ScanBack(toks, j - 1, depth - 1))
       ELSE ScanBack(toks, j - 1, depth)
MatchBack(toks, i) == ScanBack(toks, i - 1, 0)

\* innermost loop opener enclosing position i inside the same definition (0 if none)
RECURSIVE EnclosingLoop(_, _, _)
EnclosingLoop(toks, j, depth) ==
  IF j < 1 THEN 0
  ELSE LET w == W(toks, j) IN
       IF w \in Closers THEN EnclosingLoop(toks, j - 1, depth + 1)
       ELSE IF w \in Openers THEN
            (IF depth > 0 THEN EnclosingLoop(toks, j - 1, depth - 1)
             ELSE IF w \in LoopOpeners THEN j
             ELSE IF w = ":" THEN 0
             ELSE EnclosingLoop(toks, j - 1, 0))
       ELSE EnclosingLoop(toks, j - 1, depth)

\* the `:` of the innermost definition enclosing position i (0 = top level)
RECURSIVE EnclosingDef(_, _, _)
EnclosingDef(toks, j, depth) ==
  IF j < 1 THEN 0
  ELSE LET w == W(toks, j) IN
       IF w \in Closers THEN EnclosingDef(toks, j - 1, depth + 1)
       ELSE IF w \in Openers THEN
            (IF depth > 0 THEN EnclosingDef(toks, j - 1, depth - 1)
             ELSE IF w = ":" THEN j ELSE EnclosingDef(toks, j - 1, 0))
       ELSE EnclosingDef(toks, j - 1, depth)

\* textual name resolution at position i:
\*   1. latest `local name` before i inside the innermost enclosing definition (not in nested ones)
\*   2. latest `: name` or `var name` before i anywhere
\*   3. built-in
LocalDecls(toks, d, i) == {j \in (d + 2)..(i - 1) : W(toks, j) = "local" /\ EnclosingDef(toks, j, 0) = d}
ResolveLocal(toks, i, name) ==
  LET d == EnclosingDef(toks, i, 0) IN
  IF d = 0 THEN 0
  ELSE LET c == {j \in LocalDecls(toks, d, i) : j + 1 <= Len(toks) /\ W(toks, j + 1) = name /\ j + 1 < i} IN
       IF c = {} THEN 0 ELSE CHOOSE j \in c : \A k \in c : k <= j
ResolveGlobal(toks, i, name) ==
  LET c == {j \in 1..(i - 2) : W(toks, j) \in {":", "var", "late"} /\ W(toks, j + 1) = name} IN
  IF c = {} THEN 0 ELSE CHOOSE j \in c : \A k \in c : k <= j
\* `late name` declares a word that is bound when it is first CALLED, to the latest declaration of the name the
\* dictionary holds then.  A source is compiled as a whole before its top-level code runs, so within one source that is
\* the last declaration of the name in the text (0: only `late` declarations - the word would call itself for ever).
LateTarget(toks, name) ==
  LET c == {j \in 1..(Len(toks) - 1) : W(toks, j) \in {":", "var", "late"} /\ W(toks, j + 1) = name}
      j == CHOOSE x \in c : \A k \in c : k <= x IN
  IF W(toks, j) = "late" THEN 0 ELSE j
\* static slot number of the declaration at j (how many `local` precede it in its definition)
DeclIndex(toks, j) == LET d == EnclosingDef(toks, j, 0) IN Cardinality({k \in LocalDecls(toks, d, j) : k < j})

\* ------------------------------------------------------------------ state
SBoot == [pos |-> 1, ds |-> <<>>, rs |-> <<>>, ls |-> <<>>, marks |-> <<>>, glob |-> <<>>, out |-> <<>>,
          err |-> "none", arity |-> 0, skip |-> FALSE, steps |-> 0]
\* rs: frames [ret, locals]  locals: seq of <<decl position, value>>;  glob: seq of <<decl position, value>>
SOk(s) == s.err = "none"
SFail(s, k, a) == [s EXCEPT !.err = k, !.arity = a]
SDone(toks, s) == s.pos > Len(toks)

Lookup(pairs, key) == LET c == {k \in 1..Len(pairs) : pairs[k][1] = key} IN
                      IF c = {} THEN 0 ELSE CHOOSE k \in c : TRUE
SetPair(pairs, key, v) == LET k == Lookup(pairs, key) IN
                          IF k = 0 THEN Append(pairs, <<key, v>>) ELSE [pairs EXCEPT ![k] = <<key, v>>]

N(s) == Len(s.ds)
Adv(s) == [s EXCEPT !.pos = @ + 1]
SPush(s, v) == [s EXCEPT !.ds = Append(@, v)]
SPopN(s, n) == [s EXCEPT !.ds = SubSeq(@, 1, Len(@) - n)]
Arg(s, k) == Untag(s.ds[N(s) - k])         \* k = 0: top of stack

InModel(n) == n > -1073741824 /\ n < 1073741824
Abs(n)  == IF n < 0 THEN -n ELSE n
Sgn(n)  == IF n < 0 THEN -1 ELSE 1
DivT(a, b) == Sgn(a) * Sgn(b) * (Abs(a) \div Abs(b))

\* binary integer words: ( a b -- r ).  Errors: fewer than 2 items -> Underflow; non-int -> Type
IntBin(s, F(_, _), mul) ==
  IF N(s) < 2 THEN SFail(s, "Underflow", 2)
  ELSE IF Arg(s, 0).ty # "int" \/ Arg(s, 1).ty # "int" THEN SFail(s, "Type", 2)
  ELSE LET a == Arg(s, 1).i  b == Arg(s, 0).i IN
       IF mul /\ ~(Abs(a) < 32768 /\ Abs(b) < 32768) THEN [s EXCEPT !.skip = TRUE]
       ELSE LET r == F(a, b) IN
            IF r.ty = "err" THEN SFail(s, r.k, 2)
            ELSE IF r.ty = "int" /\ ~InModel(r.i) THEN [s EXCEPT !.skip = TRUE]
            ELSE Adv(SPush(SPopN(s, 2), r))
FlagBin(s, F(_, _)) ==
  IF N(s) < 2 THEN SFail(s, "Underflow", 2)
  ELSE IF Arg(s, 0).ty # "flag" \/ Arg(s, 1).ty # "flag" THEN SFail(s, "Type", 2)
  ELSE Adv(SPush(SPopN(s, 2), BoolV(F(Arg(s, 1).b = 1, Arg(s, 0).b = 1))))
ErrR(k) == [ty |-> "err", k |-> k]


Builtins == {"dup", "drop", "swap", "rot", "over", "depth", "+", "-", "*", "/", "rem", "<", ">", "==", "<>", "<=", ">=",
             "and", "or", "not", "equal?", "nil?", "I", "J", "K", "print", "length", "unbox", "collect", "nil", "true", "false"}

Counter(s, n) == IF Len(s.ls) <= n THEN SFail(s, "LsUnderflow", 0)
                 ELSE Adv(SPush(s, IntV(s.ls[Len(s.ls) - n].s)))

Builtin(s, w) ==
  CASE w = "nil"   -> Adv(SPush(s, NilV))
    [] w = "true"  -> Adv(SPush(s, TrueV))
    [] w = "false" -> Adv(SPush(s, FalseV))
    [] w = "dup"   -> IF N(s) < 1 THEN SFail(s, "Underflow", 1) ELSE Adv(SPush(s, s.ds[N(s)]))
    [] w = "drop"  -> IF N(s) < 1 THEN SFail(s, "Underflow", 1) ELSE Adv(SPopN(s, 1))
    [] w = "swap"  -> IF N(s) < 2 THEN SFail(s, "Underflow", 2)
                      ELSE Adv([s EXCEPT !.ds = [@ EXCEPT ![N(s)] = s.ds[N(s) - 1], ![N(s) - 1] = s.ds[N(s)]]])
    [] w = "rot"   -> IF N(s) < 3 THEN SFail(s, "Underflow", 3)       \* ( a b c -- c b a )
                      ELSE Adv([s EXCEPT !.ds = [@ EXCEPT ![N(s)] = s.ds[N(s) - 2], ![N(s) - 2] = s.ds[N(s)]]])
    [] w = "over"  -> IF N(s) < 2 THEN SFail(s, "Underflow", 2) ELSE Adv(SPush(s, s.ds[N(s) - 1]))
    [] w = "depth" -> Adv(SPush(s, IntV(N(s))))
    [] w = "+"     -> IntBin(s, LAMBDA a, b : IntV(a + b), FALSE)
    [] w = "-"     -> IntBin(s, LAMBDA a, b : IntV(a - b), FALSE)
    [] w = "*"     -> IntBin(s, LAMBDA a, b : IntV(a * b), TRUE)
    [] w = "/"     -> IntBin(s, LAMBDA a, b : IF b = 0 THEN ErrR("DivZero") ELSE IntV(DivT(a, b)), FALSE)
    [] w = "rem"   -> IntBin(s, LAMBDA a, b : IF b = 0 THEN ErrR("DivZero") ELSE IntV(a - b * DivT(a, b)), FALSE)
    [] w = "<"     -> IntBin(s, LAMBDA a, b : BoolV(a < b), FALSE)
    [] w = ">"     -> IntBin(s, LAMBDA a, b : BoolV(a > b), FALSE)
    [] w = "=="    -> IntBin(s, LAMBDA a, b : BoolV(a = b), FALSE)
    [] w = "<>"    -> IntBin(s, LAMBDA a, b : BoolV(a # b), FALSE)
    [] w = "<="    -> IntBin(s, LAMBDA a, b : BoolV(a <= b), FALSE)
    [] w = ">="    -> IntBin(s, LAMBDA a, b : BoolV(a >= b), FALSE)
    [] w = "and"   -> FlagBin(s, LAMBDA a, b : a /\ b)
    [] w = "or"    -> FlagBin(s, LAMBDA a, b : a \/ b)
    [] w = "not"   -> IF N(s) < 1 THEN SFail(s, "Underflow", 1)
                      ELSE IF Arg(s, 0).ty # "flag" THEN SFail(s, "Type", 1)
                      ELSE Adv(SPush(SPopN(s, 1), BoolV(Arg(s, 0).b = 0)))
    [] w = "equal?" -> IF N(s) < 2 THEN SFail(s, "Underflow", 2)
                       ELSE Adv(SPush(SPopN(s, 2), BoolV(CellEq(s.ds[N(s)], s.ds[N(s) - 1]))))
    [] w = "nil?"  -> IF N(s) < 1 THEN SFail(s, "Underflow", 1) ELSE Adv(SPush(SPopN(s, 1), BoolV(Arg(s, 0).ty = "nil")))
    [] w = "I"     -> Counter(s, 0)
    [] w = "J"     -> Counter(s, 1)
    [] w = "K"     -> Counter(s, 2)
    [] w = "print" -> IF N(s) < 1 THEN SFail(s, "Underflow", 1)
                      ELSE Adv([SPopN(s, 1) EXCEPT !.out = @ \o PrintSeq(Arg(s, 0))])
    [] w = "length" -> IF N(s) < 1 THEN SFail(s, "Underflow", 1)
                       ELSE IF Arg(s, 0).ty # "vec" THEN SFail(s, "Type", 1)
                       ELSE Adv(SPush(SPopN(s, 1), IntV(Len(Arg(s, 0).items))))
    [] w = "unbox" -> IF N(s) < 1 THEN SFail(s, "Underflow", 1)
                      ELSE IF Arg(s, 0).ty # "vec" THEN SFail(s, "Type", 1)
                      ELSE Adv([s EXCEPT !.ds = Front(@) \o Arg(s, 0).items])
    [] w = "collect" -> IF N(s) < 1 THEN SFail(s, "Underflow", 1)
                        ELSE IF Arg(s, 0).ty # "int" THEN SFail(s, "Type", 1)
                        ELSE IF Arg(s, 0).i < 0 THEN SFail(s, "Type", 1)
                        ELSE LET n == Arg(s, 0).i IN
                             IF n > N(s) - 1 THEN SFail(s, "Underflow", 1)
                             ELSE Adv([s EXCEPT !.ds = Append(SubSeq(@, 1, N(s) - 1 - n), VecV(SubSeq(@, N(s) - n, N(s) - 1)))])

\* one token
SStep(toks, s0) ==
  LET s == [s0 EXCEPT !.steps = @ + 1]
      p == s.pos
      tok == toks[p] IN
  IF tok.t = "lit" THEN Adv(SPush(s, tok.v)) ELSE
  LET w == tok.s IN
  CASE w = "if" ->
         IF N(s) < 1 THEN SFail(s, "Underflow", 1)
         ELSE IF ~CondOk(s.ds[N(s)]) THEN SFail(s, "Type", 1)
         ELSE IF CondTrue(s.ds[N(s)]) THEN Adv(SPopN(s, 1))
         ELSE [SPopN(s, 1) EXCEPT !.pos = MatchFwd(toks, p, {"else", "then"}) + 1]
    [] w = "else"    -> [s EXCEPT !.pos = MatchFwd(toks, p, {"then"}) + 1]
    [] w \in {"then", "case", "endcase", "begin"} -> Adv(s)
    [] w = "of" ->
         IF N(s) < 2 THEN SFail(s, "Underflow", 2)
         ELSE IF CellEq(s.ds[N(s)], s.ds[N(s) - 1]) THEN Adv(SPopN(s, 2))
         ELSE [SPopN(s, 1) EXCEPT !.pos = MatchFwd(toks, p, {"endof"}) + 1]
    [] w = "endof"   -> [s EXCEPT !.pos = MatchFwd(toks, p, {"endcase"}) + 1]
    [] w = "until" ->
         IF N(s) < 1 THEN SFail(s, "Underflow", 1)
         ELSE IF ~CondOk(s.ds[N(s)]) THEN SFail(s, "Type", 1)
         ELSE IF CondTrue(s.ds[N(s)]) THEN Adv(SPopN(s, 1))
         ELSE [SPopN(s, 1) EXCEPT !.pos = MatchBack(toks, p) + 1]
    [] w = "while" ->
         IF N(s) < 1 THEN SFail(s, "Underflow", 1)
         ELSE IF ~CondOk(s.ds[N(s)]) THEN SFail(s, "Type", 1)
         ELSE IF CondTrue(s.ds[N(s)]) THEN Adv(SPopN(s, 1))
         ELSE [SPopN(s, 1) EXCEPT !.pos = MatchFwd(toks, p, {"repeat"}) + 1]
    [] w = "repeat"  -> [s EXCEPT !.pos = MatchBack(toks, p) + 1]
    [] w = "do" ->
         IF N(s) < 2 THEN SFail(s, "Underflow", 2)
         ELSE IF Arg(s, 0).ty # "int" \/ Arg(s, 1).ty # "int" THEN SFail(s, "Type", 2)
         ELSE LET start == Arg(s, 0).i  limit == Arg(s, 1).i  t == SPopN(s, 2) IN
              IF start >= limit THEN [t EXCEPT !.pos = MatchFwd(toks, p, {"loop"}) + 1]
              ELSE Adv([t EXCEPT !.ls = Append(@, [s |-> start, e |-> limit])])
    [] w = "loop" ->
         IF s.ls = <<>> THEN SFail(s, "LsUnderflow", 0)
         ELSE LET l == Last(s.ls) IN
              IF l.s + 1 < l.e THEN [s EXCEPT !.ls[Len(s.ls)].s = @ + 1, !.pos = MatchBack(toks, p) + 1]
              ELSE Adv([s EXCEPT !.ls = Front(@)])
    [] w = "break" ->
         LET o == EnclosingLoop(toks, p - 1, 0) IN
         IF o = 0 THEN [s EXCEPT !.skip = TRUE]
         ELSE IF W(toks, o) = "do"
              THEN IF s.ls = <<>> THEN SFail(s, "LsUnderflow", 0)
                   ELSE [s EXCEPT !.ls = Front(@), !.pos = MatchFwd(toks, o, {"loop"}) + 1]
              ELSE [s EXCEPT !.pos = MatchFwd(toks, o, {"repeat"}) + 1]
    [] w = ":"       -> [s EXCEPT !.pos = MatchFwd(toks, p, {";"}) + 1]
    [] w = ";" ->
         IF s.rs = <<>> THEN SFail(s, "RsUnderflow", 0)
         ELSE [s EXCEPT !.pos = Last(s.rs).ret, !.rs = Front(@)]
    [] w = "local" ->
         IF N(s) < 1 THEN SFail(s, "Underflow", 1)
         ELSE IF s.rs = <<>> THEN SFail(s, "RsUnderflow", 1)
         ELSE LET f == Last(s.rs)  k == DeclIndex(toks, p)  have == Lookup(f.locals, p) IN
              \* judged only when declarations are initialised in textual order (5.19)
              IF ~((have = 0 /\ k = Len(f.locals)) \/ (have # 0 /\ have = k + 1)) THEN [s EXCEPT !.skip = TRUE]
              ELSE [SPopN(s, 1) EXCEPT !.rs[Len(s.rs)].locals = SetPair(@, p, s.ds[N(s)]), !.pos = p + 2]
    [] w = "late" -> [s EXCEPT !.pos = p + 2]
    [] w = "var" ->
         IF N(s) < 1 THEN SFail(s, "Underflow", 1)
         ELSE [SPopN(s, 1) EXCEPT !.glob = SetPair(@, p, s.ds[N(s)]), !.pos = p + 2]
    [] w = "!" ->
         LET g == ResolveGlobal(toks, p, W(toks, p + 1)) IN
         IF g = 0 \/ W(toks, g) # "var" THEN [s EXCEPT !.skip = TRUE]
         ELSE IF N(s) < 1 THEN SFail(s, "Underflow", 1)
         ELSE [SPopN(s, 1) EXCEPT !.glob = SetPair(@, g, s.ds[N(s)]), !.pos = p + 2]
    [] w = "[" -> Adv([s EXCEPT !.marks = Append(@, N(s))])
    [] w = "]" ->
         IF s.marks = <<>> THEN SFail(s, "ControlFlow", 0)
         ELSE LET mk == Last(s.marks) IN
              IF N(s) < mk THEN SFail([s EXCEPT !.marks = Front(@)], "ControlFlow", 0)
              ELSE Adv([s EXCEPT !.marks = Front(@), !.ds = Append(SubSeq(@, 1, mk), VecV(SubSeq(@, mk + 1, N(s))))])
    [] OTHER ->
         LET l == ResolveLocal(toks, p, w) IN
         IF l # 0 THEN
              (IF s.rs = <<>> THEN SFail(s, "RsUnderflow", 0)
               ELSE LET k == Lookup(Last(s.rs).locals, l)  d == DeclIndex(toks, l) IN
                    IF k = 0 /\ d >= Len(Last(s.rs).locals) THEN SFail(s, "Local", 0)
                    ELSE IF k # d + 1 THEN [s EXCEPT !.skip = TRUE]
                    ELSE Adv(SPush(s, Last(s.rs).locals[k][2])))
         ELSE LET g0 == ResolveGlobal(toks, p, w)
                  g == IF g0 # 0 /\ W(toks, g0) = "late" THEN LateTarget(toks, w) ELSE g0 IN
              IF g0 # 0 /\ g = 0 THEN [s EXCEPT !.skip = TRUE]
              ELSE IF g # 0 THEN
                   (IF W(toks, g) = ":" THEN [s EXCEPT !.rs = Append(@, [ret |-> p + 1, locals |-> <<>>]), !.pos = g + 2]
                    ELSE LET k == Lookup(s.glob, g) IN
                         Adv(SPush(s, IF k = 0 THEN NilV ELSE s.glob[k][2])))
              ELSE IF w \in Builtins THEN Builtin(s, w)
              ELSE [s EXCEPT !.skip = TRUE]

\* evaluation with fuel: "timeout" is a distinct outcome (the program is still running after F steps)
RECURSIVE SRun(_, _, _)
SRun(toks, s, fuel) ==
  IF ~SOk(s) \/ s.skip \/ SDone(toks, s) THEN s
  ELSE IF fuel = 0 THEN [s EXCEPT !.err = "timeout"]
  ELSE SRun(toks, SStep(toks, s), fuel - 1)

\* names are resolved when the source is compiled, also in code that is never executed: a program in which some
\* word resolves to nothing (e.g. a nested definition mentioning a local of the enclosing one) is outside the grammar
Structural == Openers \cup Closers \cup {"else", "of", "endof", "while", "break", "local", "var", "!", "late"}
IsName(toks, i) == i > 1 /\ W(toks, i - 1) \in {":", "local", "var", "!", "late"}
StaticOk(toks) == \A i \in 1..Len(toks) :
   /\ toks[i].t # "w" \/ W(toks, i) \in Structural \cup Builtins \/ IsName(toks, i)
      \/ ResolveLocal(toks, i, W(toks, i)) # 0 \/ ResolveGlobal(toks, i, W(toks, i)) # 0
   /\ W(toks, i) = "!" =>           \* `! name`: the name must denote a variable where it is written
         /\ i < Len(toks)
         /\ LET g == ResolveGlobal(toks, i, W(toks, i + 1)) IN g # 0 /\ W(toks, g) = "var"
SEval(toks, fuel) == IF StaticOk(toks) THEN SRun(toks, SBoot, fuel) ELSE [SBoot EXCEPT !.skip = TRUE]

\* the values of all top-level variables, by name (latest declaration of each name)
\* (names whose last declaration is a `var`: those are what a lookup by name finds after the run)
VarNames(toks) == {nm \in {W(toks, j + 1) : j \in {k \in 1..(Len(toks) - 1) : W(toks, k) = "var"}} :
                     W(toks, ResolveGlobal(toks, Len(toks) + 2, nm)) = "var"}
VarValue(toks, s, name) ==
  LET g == ResolveGlobal(toks, Len(toks) + 2, name)  k == Lookup(s.glob, g) IN
  IF k = 0 THEN NilV ELSE s.glob[k][2]
=============================================================================
