----------------------------- MODULE Collections -----------------------------
(***************************************************************************)
(* Maps, vectors and strings of xeh as values (C12).                        *)
(* A map is an association list with at most one entry per key, where keys   *)
(* are the same exactly when `equal?` (CellEq, tag-insensitive) says so:     *)
(* keys of different types never collide.  Vectors and strings are           *)
(* sequences; indices are mathematical integers (HUGE stands for an index    *)
(* beyond the machine range: out of range, never a truncated in-range one).  *)
(***************************************************************************)
EXTENDS Values

HUGE == 1000000007          \* symbolic; only compared, never used to index

\* ---- maps
MFind(kv, k) == LET c == {i \in 1..Len(kv) : CellEq(kv[i][1], k)} IN IF c = {} THEN 0 ELSE CHOOSE i \in c : TRUE
MInsert(kv, k, v) == LET i == MFind(kv, k) IN IF i = 0 THEN Append(kv, <<k, v>>) ELSE [kv EXCEPT ![i] = <<k, v>>]
MRemove(kv, k) == LET i == MFind(kv, k) IN IF i = 0 THEN kv ELSE SubSeq(kv, 1, i - 1) \o SubSeq(kv, i + 1, Len(kv))
MGet(kv, k) == LET i == MFind(kv, k) IN IF i = 0 THEN NilV ELSE kv[i][2]
\* equality of maps as sets of pairs
MEq(a, b) == Len(a) = Len(b) /\ \A i \in 1..Len(a) : MFind(b, a[i][1]) # 0 /\ CellEq(MGet(b, a[i][1]), a[i][2])

\* ---- sequences
\* nth: negative counts from the end; out of range is an error
NthIndex(len, i) == IF i = HUGE \/ i = -HUGE THEN -1
                    ELSE IF i < 0 THEN (IF -i > len THEN -1 ELSE len + i) ELSE IF i < len THEN i ELSE -1
\* get on a vector: only 0 <= i < len
GetIndex(len, i) == IF i = HUGE THEN -1 ELSE IF i >= 0 /\ i < len THEN i ELSE -1
\* slice: both ends clamped into [0, len]; negative from the end
Clamp(len, i) == IF i = HUGE THEN len ELSE IF i = -HUGE THEN 0
                 ELSE IF i < 0 THEN (IF -i > len THEN 0 ELSE len + i) ELSE IF i > len THEN len ELSE i
Slice(s, a, b) == LET x == Clamp(Len(s), a)  y == Clamp(Len(s), b) IN IF y <= x THEN <<>> ELSE SubSeq(s, x + 1, y)
Rev(s) == [i \in 1..Len(s) |-> s[Len(s) + 1 - i]]
\* sort: judged on integers only (mutually comparable); ascending permutation
RECURSIVE InsertSorted(_, _)
InsertSorted(s, x) == IF s = <<>> THEN <<x>> ELSE IF x.i < Head(s).i THEN <<x>> \o s ELSE <<Head(s)>> \o InsertSorted(Tail(s), x)
RECURSIVE SortInts(_)
SortInts(s) == IF s = <<>> THEN <<>> ELSE InsertSorted(SortInts(Tail(s)), Head(s))
=============================================================================
