------------------------------ MODULE Trace_Lexer ------------------------------
(***************************************************************************)
(* Trace specification for C16 on arbitrary UTF-8: each event is one text    *)
(* lexed to the end by the real lexer, with the byte span of every token.    *)
(* The specification states totality, progress and tiling:                   *)
(*   - the lexer stops (end of input or an error) within chars + 1 calls;    *)
(*   - every token is non-empty and starts where the previous one ended, the *)
(*     first at 0;                                                           *)
(*   - at the end of input the spans cover the whole text.                   *)
(***************************************************************************)
EXTENDS Naturals, Sequences, TLC, Json, IOUtils
Rec == ndJsonDeserialize(IOEnv.TRACE)
VARIABLE l
Ev == Rec[l]
Init == l = 1
Tiles(sp) == /\ (sp # <<>> => sp[1][1] = 0)
             /\ \A i \in 1..Len(sp) : sp[i][2] > sp[i][1]
             /\ \A i \in 1..(Len(sp) - 1) : sp[i + 1][1] = sp[i][2]
Next == /\ l <= Len(Rec) /\ l' = l + 1
        /\ "panic" \notin DOMAIN Ev
        /\ Ev.ended \in {"eof", "error"}
        /\ Ev.calls <= Ev.chars + 1
        /\ Tiles(Ev.spans)
        /\ (Ev.ended = "eof" => Ev.covered = Ev.len)
Spec == Init /\ [][Next]_l
Accepted == IF TLCGet("stats").diameter - 1 = Len(Rec) THEN TRUE
            ELSE Print(<<"REJECTED-AT", TLCGet("stats").diameter, Rec[TLCGet("stats").diameter]>>, FALSE)
=============================================================================
