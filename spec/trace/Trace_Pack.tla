------------------------------- MODULE Trace_Pack -------------------------------
(***************************************************************************)
(* Trace specification for C07: each event is one record of up to 20 random *)
(* fields packed and parsed back by the real interpreter.  TLC evaluates     *)
(* Pack on the field list and compares: the packed bits, the patterns of the *)
(* values parsed back, remain = 0, and output / output-length under emit.    *)
(***************************************************************************)
EXTENDS Record, TLC, Json, IOUtils
Rec == ndJsonDeserialize(IOEnv.TRACE)
VARIABLE l
Ev == Rec[l]
Init == l = 1
Next == /\ l <= Len(Rec) /\ l' = l + 1
        /\ Ev.packed = Pack(Ev.fields)
        /\ Len(Ev.packed) = SumW(Ev.fields)
        /\ ParseOk(Ev.fields, Ev.packed, 0)
        /\ \A k \in 1..Len(Ev.fields) : Ev.parsed[k] = Ev.fields[k].value        \* what the read words returned
        /\ Ev.remain = 0
        /\ Ev.output = Ev.packed /\ Ev.outlen = Len(Ev.packed)
Spec == Init /\ [][Next]_l
Accepted == IF TLCGet("stats").diameter - 1 = Len(Rec) THEN TRUE
            ELSE Print(<<"REJECTED-AT", TLCGet("stats").diameter, Rec[TLCGet("stats").diameter].src>>, FALSE)
=============================================================================
