----------------------------- MODULE Trace_TwinObs -----------------------------
(***************************************************************************)
(* Observational twin-run trace specification (DESIGN 2.3).  A run is a     *)
(* group of events, one per variant of the same experiment (drive mode x    *)
(* recording for C15; tagged / untagged arguments for C13; with / without   *)
(* the rejected source for C10; limited / unlimited clone for C14).  The    *)
(* interpreter is opaque: each event carries only o, the hash of the        *)
(* observables the property names.  The specification states the relation   *)
(* between the variants: within one run all observations are equal.         *)
(***************************************************************************)
EXTENDS Naturals, Integers, Sequences, TLC, Json, IOUtils

Rec == ndJsonDeserialize(IOEnv.TRACE)

VARIABLES l, run, obs
vars == <<l, run, obs>>
Ev == Rec[l]

Init == l = 1 /\ run = -1 /\ obs = ""

First == Ev.run # run /\ run' = Ev.run /\ obs' = Ev.o
Same  == Ev.run = run /\ Ev.o = obs /\ UNCHANGED <<run, obs>>
\* (a panic is an observation like any other here: "no panic" is C08's statement, not a twin-run one)
Next == l <= Len(Rec) /\ l' = l + 1 /\ (First \/ Same)
Spec == Init /\ [][Next]_vars

Accepted == IF TLCGet("stats").diameter - 1 = Len(Rec) THEN TRUE
            ELSE Print(<<"REJECTED-AT", TLCGet("stats").diameter, Rec[TLCGet("stats").diameter]>>, FALSE)
=============================================================================
