----------------------------- MODULE Trace_TagObs -----------------------------
(***************************************************************************)
(* Observational trace specification for C13.  A run is a pair of events:   *)
(* the call on untagged arguments, then the same call on tagged ones.  o is  *)
(* the hash of the result rendered with every tag removed at every depth     *)
(* (plus error class, output and variables).  The specification states:      *)
(*   - both events of a run carry the same o (tags do not change what the    *)
(*     word does, nor when it fails);                                        *)
(*   - a word of class "computes" returns results without tags in both runs. *)
(***************************************************************************)
EXTENDS Naturals, Integers, Sequences, TLC, Json, IOUtils
Rec == ndJsonDeserialize(IOEnv.TRACE)
VARIABLES l, run, obs
vars == <<l, run, obs>>
Ev == Rec[l]
Init == l = 1 /\ run = -1 /\ obs = ""
First == Ev.run # run /\ Ev.variant = "plain" /\ run' = Ev.run /\ obs' = Ev.o
Same  == Ev.run = run /\ Ev.variant = "tagged" /\ Ev.o = obs /\ UNCHANGED <<run, obs>>
FreshResult == Ev.cls = "computes" => Ev.restags = 0
Next == l <= Len(Rec) /\ l' = l + 1 /\ FreshResult /\ (First \/ Same)
Spec == Init /\ [][Next]_vars
Accepted == IF TLCGet("stats").diameter - 1 = Len(Rec) THEN TRUE
            ELSE Print(<<"REJECTED-AT", TLCGet("stats").diameter, Rec[TLCGet("stats").diameter]>>, FALSE)
=============================================================================
