------------------------------ MODULE Trace_Codec ------------------------------
(***************************************************************************)
(* Trace specification for C05/C07: each recorded event is one pack/unpack   *)
(* of a random value by the real crate:  w, order, value (MSB-first pattern  *)
(* of the low w bits), wire (bits produced by Bitstr::from_int / pack words) *)
(* and decoded (pattern of what to_uint / the read words returned from the   *)
(* same bits placed at bit offset `off`).  TLC evaluates the codec of        *)
(* Bits.tla on every event.                                                  *)
(***************************************************************************)
EXTENDS Bits, TLC, Json, IOUtils
Rec == ndJsonDeserialize(IOEnv.TRACE)
VARIABLE l
Ev == Rec[l]
Init == l = 1
Next == /\ l <= Len(Rec) /\ l' = l + 1
        /\ Len(Ev.value) = Ev.w
        /\ Ev.wire = Encode(Ev.value, Ev.order)          \* packing
        /\ Ev.decoded = Ev.value                          \* unpacking returns the value reduced to the width
        /\ Decode(Ev.wire, Ev.order) = Ev.value
Spec == Init /\ [][Next]_l
Accepted == IF TLCGet("stats").diameter - 1 = Len(Rec) THEN TRUE
            ELSE Print(<<"REJECTED-AT", TLCGet("stats").diameter, Rec[TLCGet("stats").diameter]>>, FALSE)
=============================================================================
