------------------------------ MODULE Trace_Arith ------------------------------
(***************************************************************************)
(* Trace specification for C09: random i128 operand pairs evaluated by the  *)
(* real interpreter; every event (op, a, b, result) is judged by TLC with    *)
(* the bit-level operators of Arith.tla at W = 128.                          *)
(***************************************************************************)
EXTENDS Arith, TLC, Json, IOUtils
Rec == ndJsonDeserialize(IOEnv.TRACE)
VARIABLE l
Ev == Rec[l]
Init == l = 1
F(p) == IF p THEN 1 ELSE 0
\* res: [k |-> "int", v |-> bits] | [k |-> "flag", f |-> 0/1] | [k |-> "err", cls |-> class]
IntOr(v, ovf) == \/ Ev.res.k = "int" /\ Ev.res.v = v
                 \/ ovf /\ Ev.res.k = "err" /\ Ev.res.cls = "Overflow"
FlagIs(p) == Ev.res.k = "flag" /\ Ev.res.f = F(p)
Judge ==
  LET a == Ev.a  b == Ev.b  op == Ev.op IN
  CASE op = "+"   -> IntOr(AddB(a, b), AddOverflows(a, b))
    [] op = "-"   -> IntOr(SubB(a, b), SubOverflows(a, b))
    [] op = "*"   -> IntOr(MulB(a, b), MulOverflows(a, b))
    [] op = "/"   -> IF IsZero(b) THEN Ev.res.k = "err" /\ Ev.res.cls = "DivZero" ELSE IntOr(DivB(a, b), DivOverflows(a, b))
    [] op = "rem" -> IF IsZero(b) THEN Ev.res.k = "err" /\ Ev.res.cls = "DivZero" ELSE IntOr(RemB(a, b), FALSE)
    [] op = "min" -> IntOr(MinS(a, b), FALSE)
    [] op = "max" -> IntOr(MaxS(a, b), FALSE)
    [] op = "<"   -> FlagIs(LtS(a, b))
    [] op = "<="  -> FlagIs(~LtS(b, a))
    [] op = ">"   -> FlagIs(LtS(b, a))
    [] op = ">="  -> FlagIs(~LtS(a, b))
    [] op = "=="  -> FlagIs(a = b)
    [] op = "<>"  -> FlagIs(a # b)
    [] op = "band" -> IntOr(AndB(a, b), FALSE)
    [] op = "bor"  -> IntOr(OrB(a, b), FALSE)
    [] op = "bxor" -> IntOr(XorB(a, b), FALSE)
    [] op = "bsl"  -> IntOr(ShlB(a, Ev.s), FALSE)
    [] op = "bsr"  -> IntOr(SarB(a, Ev.s), FALSE)
    [] op = "neg"  -> IntOr(NegB(a), NegOverflows(a))
    [] op = "abs"  -> IntOr(AbsB(a), IsMin(a))
    [] op = "bnot" -> IntOr(NotB(a), FALSE)
Next == l <= Len(Rec) /\ l' = l + 1 /\ Judge
Spec == Init /\ [][Next]_l
Accepted == IF TLCGet("stats").diameter - 1 = Len(Rec) THEN TRUE
            ELSE Print(<<"REJECTED-AT", TLCGet("stats").diameter, Rec[TLCGet("stats").diameter].src>>, FALSE)
=============================================================================
