--------------------------- MODULE Trace_ReverseObs ---------------------------
(***************************************************************************)
(* Observational trace specification for C02 (DESIGN 2.3): the machine      *)
(* state is an opaque value d (hash of the canonical dump projection: ip,    *)
(* whole data stack, frames with locals, loop entries, builder marks, heap). *)
(* The specification states only the relation between moments:               *)
(*   - a successful forward step from position p moves to p+1; if p+1 was    *)
(*     visited before, the state must be the one recorded then (replay       *)
(*     reproduces the original execution step for step);                     *)
(*   - a forward step at a position where a step failed before fails again   *)
(*     and vice versa (determinism of replay);                               *)
(*   - a backward step from a clean position p lands exactly on the state    *)
(*     recorded for p-1;                                                     *)
(*   - a backward step after a failed attempt first takes back what the      *)
(*     failed instruction had logged: if it had logged something (the event  *)
(*     says how many records) the step lands on the state recorded for p;    *)
(*     if it had logged nothing it is an ordinary backward step and lands    *)
(*     on p-1 (interpretation 5.19, read off rnext).                         *)
(* It applies to programs over the whole dictionary.                         *)
(***************************************************************************)
EXTENDS Naturals, Sequences, TLC, Json, IOUtils

Rec == ndJsonDeserialize(IOEnv.TRACE)

VARIABLES l,       \* next event
          hist,    \* states recorded per position of the current run
          p,       \* current position
          dirty,   \* the last forward step failed
          failp,   \* position at which a forward step is known to fail (0: none)
          lg       \* reverse-log records the failed step left behind
vars == <<l, hist, p, dirty, failp, lg>>

Ev == Rec[l]

Init == l = 1 /\ hist = <<>> /\ p = 0 /\ dirty = FALSE /\ failp = 0 /\ lg = 0

Reset == /\ Ev.ev = "reset"
         /\ hist' = <<Ev.d>> /\ p' = 1 /\ dirty' = FALSE /\ failp' = 0 /\ lg' = 0

FwdOk == /\ Ev.ev = "step" /\ Ev.ok = 1
         /\ ~dirty /\ p >= 1 /\ failp # p
         /\ p' = p + 1 /\ dirty' = FALSE /\ failp' = failp /\ lg' = 0
         /\ IF p < Len(hist) THEN Ev.d = hist[p + 1] /\ hist' = hist          \* replay reproduces
                             ELSE hist' = Append(hist, Ev.d)

FwdFail == /\ Ev.ev = "step" /\ Ev.ok = 0
           /\ ~dirty /\ p >= 1 /\ p = Len(hist)                               \* never where a step once succeeded
           /\ p' = p /\ dirty' = TRUE /\ failp' = p /\ hist' = hist /\ lg' = Ev.logged

BackClean == /\ Ev.ev = "rstep" /\ ~dirty /\ p > 1
             /\ Ev.d = hist[p - 1]                                            \* k steps back = the state k steps earlier
             /\ p' = p - 1 /\ dirty' = FALSE /\ lg' = 0 /\ UNCHANGED <<hist, failp>>

BackDirty == /\ Ev.ev = "rstep" /\ dirty /\ p >= 1
             /\ IF lg > 0 \/ p = 1 THEN Ev.d = hist[p] /\ p' = p
                ELSE Ev.d = hist[p - 1] /\ p' = p - 1
             /\ dirty' = FALSE /\ lg' = 0 /\ UNCHANGED <<hist, failp>>

\* a panic is an outcome no action of the specification produces
NoPanic == "panic" \notin DOMAIN Ev
Next == l <= Len(Rec) /\ l' = l + 1 /\ NoPanic /\ (Reset \/ FwdOk \/ FwdFail \/ BackClean \/ BackDirty)
Spec == Init /\ [][Next]_vars

Accepted == IF TLCGet("stats").diameter - 1 = Len(Rec) THEN TRUE
            ELSE Print(<<"REJECTED-AT", TLCGet("stats").diameter, Rec[TLCGet("stats").diameter]>>, FALSE)
=============================================================================
