------------------------------ MODULE Trace_Total ------------------------------
(***************************************************************************)
(* Trace specification for C08: every recorded API call (eval, compile, run, *)
(* next, rnext, pretty_error, format_cell, clone) has one of the two         *)
(* outcomes the specification's call-level relation produces: Ok or          *)
(* Err(class).  No action produces "panic" (nor a crashed process).          *)
(***************************************************************************)
EXTENDS Naturals, Sequences, TLC, Json, IOUtils
Rec == ndJsonDeserialize(IOEnv.TRACE)
VARIABLE l
Ev == Rec[l]
Init == l = 1
Outcomes == {"ok", "err"}
Next == l <= Len(Rec) /\ l' = l + 1 /\ Ev.out \in Outcomes
Spec == Init /\ [][Next]_l
Accepted == IF TLCGet("stats").diameter - 1 = Len(Rec) THEN TRUE
            ELSE Print(<<"REJECTED-AT", TLCGet("stats").diameter, Rec[TLCGet("stats").diameter]>>, FALSE)
=============================================================================
