------------------------------ MODULE Trace_Cursor ------------------------------
(***************************************************************************)
(* Semantic trace specification for C06: long seeded sequences of parsing    *)
(* words executed by the real interpreter (one eval per word) are replayed   *)
(* through the operators of Cursor.tla; after every word the recorded        *)
(* offset, remain, input bits, error class and data stack must equal the     *)
(* specification's.                                                          *)
(***************************************************************************)
EXTENDS Cursor, Json, IOUtils
Rec == ndJsonDeserialize(IOEnv.TRACE)
VARIABLES l, c
vars == <<l, c>>
Ev == Rec[l]
Init == l = 1 /\ c = Boot
Plain(v) == IF v.ty = "bits" THEN [ty |-> "bits", b |-> v.b] ELSE v        \* the origin of a stack value is not observable
ObsOf(x) == [err |-> x.err, off |-> x.off, remain |-> Remain(x), inp |-> x.inp.b, ds |-> [k \in 1..Len(x.ds) |-> Plain(x.ds[k])]]
ErrOk(e, got) == IF e = "AnyErr" THEN got # "none" ELSE e = got
Next == /\ l <= Len(Rec) /\ l' = l + 1
        /\ IF Ev.w.w = "reset" THEN c' = Boot
           ELSE /\ c' = Apply(c, Ev.w)
                /\ LET o == ObsOf(c') IN
                   /\ ErrOk(o.err, Ev.obs.err)
                   /\ o.off = Ev.obs.off /\ o.remain = Ev.obs.remain /\ o.inp = Ev.obs.inp /\ o.ds = Ev.obs.ds
Spec == Init /\ [][Next]_vars
Accepted == IF TLCGet("stats").diameter - 1 = Len(Rec) THEN TRUE
            ELSE Print(<<"REJECTED-AT", TLCGet("stats").diameter, Rec[TLCGet("stats").diameter]>>, FALSE)
=============================================================================
