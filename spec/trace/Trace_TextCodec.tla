---------------------------- MODULE Trace_TextCodec ----------------------------
(***************************************************************************)
(* Trace specification for C18 (DESIGN 5/C18).  The alphabets are NOT fixed  *)
(* by the specification: per codec it learns the map bytes -> text along the *)
(* trace and states the algebra the property names:                          *)
(*   enc  bytes -> text   : deterministic, injective, whole bytes only       *)
(*   dec  text -> bytes   : returns the bytes of every text learned from enc *)
(*   decbad text -> nil   : text with a never-valid character decodes to nil *)
(*   decdel text -> r     : a learned text with one character deleted (still   *)
(*                          inside the alphabet, possibly non-canonical: the   *)
(*                          property does not say what it decodes to) decodes  *)
(*                          to nil or to some bytes - never an error           *)
(*   encbad               : an input >bitstr rejects (or not whole bytes) is  *)
(*                          rejected by enc as well - an error, not a value   *)
(* and no event is ever a panic / a decode error.                            *)
(***************************************************************************)
EXTENDS Naturals, Sequences, FiniteSets, TLC, Json, IOUtils
Rec == ndJsonDeserialize(IOEnv.TRACE)
Codecs == {"base32", "base32hex", "base64", "zero85"}
VARIABLES l, learned          \* learned[codec]: set of <<bytes, text>>
vars == <<l, learned>>
Ev == Rec[l]
Init == l = 1 /\ learned = [k \in Codecs |-> {}]
Known == learned[Ev.codec]
Enc == /\ Ev.op = "enc" /\ Ev.res = "ok"
       /\ \A p \in Known : (p[1] = Ev.bytes) <=> (p[2] = Ev.text)          \* function and injective
       /\ learned' = [learned EXCEPT ![Ev.codec] = @ \cup {<<Ev.bytes, Ev.text>>}]
Dec == /\ Ev.op = "dec" /\ Ev.res = "ok"
       /\ \E p \in Known : p[2] = Ev.text /\ p[1] = Ev.bytes                 \* what was encoded comes back
       /\ UNCHANGED learned
DecBad == Ev.op = "decbad" /\ Ev.res = "nil" /\ UNCHANGED learned
DecDel == /\ Ev.op = "decdel"
          /\ Ev.res \in {"nil", "ok"}
          /\ UNCHANGED learned
EncBad == Ev.op = "encbad" /\ Ev.res = "err" /\ Ev.tobitstr \in {"err", "notbytes"} /\ UNCHANGED learned
Next == l <= Len(Rec) /\ l' = l + 1 /\ (Enc \/ Dec \/ DecBad \/ DecDel \/ EncBad)
Spec == Init /\ [][Next]_vars
Accepted == IF TLCGet("stats").diameter - 1 = Len(Rec) THEN TRUE
            ELSE Print(<<"REJECTED-AT", TLCGet("stats").diameter, Rec[TLCGet("stats").diameter]>>, FALSE)
=============================================================================
