------------------------------ MODULE Trace_Source ------------------------------
(***************************************************************************)
(* Semantic trace specification for C01: seeded programs far beyond the      *)
(* enumeration bound (deep nesting, nested definitions, repeated local       *)
(* names, 40+ tokens) are run by the real interpreter; each event carries    *)
(* the token sequence and what was observed.  TLC evaluates the structural   *)
(* reference (Src.tla) on the tokens and judges the observation.             *)
(***************************************************************************)
EXTENDS Values, TLC, Json, IOUtils
S == INSTANCE Src
Rec == ndJsonDeserialize(IOEnv.TRACE)
VARIABLE l
Ev == Rec[l]
Init == l = 1
Fuel(toks) == 40 * (Len(toks) + 1)
RECURSIVE Flat(_)
Flat(s) == IF s = <<>> THEN "" ELSE Head(s) \o Flat(Tail(s))          \* stdout is one text
Below(ds, a) == IF Len(ds) >= a THEN SubSeq(ds, 1, Len(ds) - a) ELSE <<>>
Judge ==
  LET r == S!SEval(Ev.toks, Fuel(Ev.toks)) IN
  IF r.skip THEN TRUE
  ELSE IF r.err = "timeout" THEN Ev.res \in {"limit", "ok"}          \* still running after the fuel: never a wrong early exit with an error
  ELSE IF r.err = "none" THEN
       /\ Ev.res = "ok" /\ Ev.ds = r.ds /\ Flat(Ev.out) = Flat(r.out)
       /\ \A nm \in S!VarNames(Ev.toks) : nm \in DOMAIN Ev.vars /\ Ev.vars[nm] = S!VarValue(Ev.toks, r, nm)
  ELSE /\ Ev.res = "err" /\ Ev.cls = r.err /\ Flat(Ev.out) = Flat(r.out)
       /\ Len(Ev.ds) >= Len(Below(r.ds, r.arity)) /\ Len(Ev.ds) <= Len(r.ds)
       /\ SubSeq(Ev.ds, 1, Len(Below(r.ds, r.arity))) = Below(r.ds, r.arity)
Next == l <= Len(Rec) /\ l' = l + 1 /\ Judge
Spec == Init /\ [][Next]_l
Accepted == IF TLCGet("stats").diameter - 1 = Len(Rec) THEN TRUE
            ELSE Print(<<"REJECTED-AT", TLCGet("stats").diameter, Rec[TLCGet("stats").diameter].src>>, FALSE)
=============================================================================
