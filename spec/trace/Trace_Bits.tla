------------------------------- MODULE Trace_Bits -------------------------------
(***************************************************************************)
(* Semantic trace specification for C04: every recorded operation on        *)
(* xeh::bitstr::Bitstr handles is conjoined with the abstract operator of    *)
(* Bits.tla on plain bit sequences; after each event every live handle's     *)
(* bits (as returned by the real bits() iterator) must equal the abstract    *)
(* value.  Histories are long (30 operations, 8 handles, buffers up to       *)
(* dozens of bytes) - far beyond what MC_C04 enumerates.                     *)
(***************************************************************************)
EXTENDS Bits, TLC, Json, IOUtils

Rec == ndJsonDeserialize(IOEnv.TRACE)
NH == 8
VARIABLES l, g          \* g: handle -> abstract bits
vars == <<l, g>>
Ev == Rec[l]
Init == l = 1 /\ g = [h \in 1..NH |-> <<>>]

A == Ev.args
Effect ==
  CASE Ev.op = "reset"  -> [h \in 1..NH |-> <<>>]
    [] Ev.op = "from"   -> [g EXCEPT ![A.h] = A.bits]
    [] Ev.op = "drop"   -> [g EXCEPT ![A.h] = <<>>]
    [] Ev.op = "clone"  -> [g EXCEPT ![A.r] = g[A.h]]
    [] Ev.op = "read"   -> [g EXCEPT ![A.r] = BTake(g[A.h], A.n), ![A.h] = BDrop(g[A.h], A.n)]
    [] Ev.op = "peek"   -> [g EXCEPT ![A.r] = BTake(g[A.h], A.n)]
    [] Ev.op = "seek"   -> [g EXCEPT ![A.r] = BDrop(g[A.h], A.n)]
    [] Ev.op = "substr" -> [g EXCEPT ![A.r] = BSub(g[A.h], A.i, A.j)]
    [] Ev.op = "split"  -> [g EXCEPT ![A.r] = BTake(g[A.h], A.n), ![A.r2] = BDrop(g[A.h], A.n)]
    [] Ev.op = "append" -> [g EXCEPT ![A.h] = BAppend(g[A.h], g[A.t])]
    [] Ev.op = "insert" -> [g EXCEPT ![A.h] = BInsert(g[A.h], A.k, g[A.t])]
    [] Ev.op = "invert" -> [g EXCEPT ![A.h] = BInvert(g[A.h])]
    [] Ev.op = "detach" -> g
    [] Ev.op = "failed" -> g          \* the operation answered None: must be out of range in the model too
    [] Ev.op = "panic"  -> g          \* never legal (below)
Legal ==
  CASE Ev.op \in {"read", "peek", "seek"} -> A.n <= Len(g[A.h])
    [] Ev.op = "split"  -> A.n <= Len(g[A.h])
    [] Ev.op = "substr" -> A.i <= A.j /\ A.j <= Len(g[A.h])
    [] Ev.op = "insert" -> A.k <= Len(g[A.h])
    [] Ev.op = "failed" -> (IF A.what = "substr" THEN ~(A.i <= A.j /\ A.j <= Len(g[A.h])) ELSE A.n > Len(g[A.h]))
    [] Ev.op = "panic"  -> FALSE       \* no operation of the specification panics
    [] OTHER -> TRUE

Next == /\ l <= Len(Rec) /\ l' = l + 1
        /\ Legal
        /\ g' = Effect
        /\ \A h \in 1..NH : Ev.live[h] = 1 => Ev.post[h] = g'[h]      \* what the implementation returned
Spec == Init /\ [][Next]_vars

Accepted == IF TLCGet("stats").diameter - 1 = Len(Rec) THEN TRUE
            ELSE Print(<<"REJECTED-AT", TLCGet("stats").diameter, Rec[TLCGet("stats").diameter].op, Rec[TLCGet("stats").diameter].args>>, FALSE)
=============================================================================
