------------------------------ MODULE Trace_Limits ------------------------------
(***************************************************************************)
(* Trace specification for C14.  Events are recorded after every API call   *)
(* of a run in which limits are set and changed between evaluations:        *)
(*   setlimit  n s h      (-1 = unlimited; the instruction meter restarts)  *)
(*   step      ok ds heap (one `next`; ds / heap = lengths from the dump)   *)
(*   call      ok ds heap (a whole eval / compile / run call)               *)
(* The specification keeps its OWN count of successfully executed           *)
(* instructions since the limit was set (it does not trust the              *)
(* implementation's meter) and requires, after every event,                 *)
(*     count <= N,  ds <= S,  heap <= H.                                    *)
(***************************************************************************)
EXTENDS Naturals, Integers, Sequences, TLC, Json, IOUtils

Rec == ndJsonDeserialize(IOEnv.TRACE)
VARIABLES l, N, S, H, count, run
vars == <<l, N, S, H, count, run>>
\* A limit set below the current size bounds growth, it cannot shrink what is already there:
\* S and H hold max(limit, size when the limit was set).
Ev == Rec[l]

Init == l = 1 /\ N = -1 /\ S = -1 /\ H = -1 /\ count = 0 /\ run = -1

Within(x, lim) == lim < 0 \/ x <= lim

Reset == Ev.ev = "reset" /\ N' = -1 /\ S' = -1 /\ H' = -1 /\ count' = 0 /\ run' = Ev.run
SetLimit == /\ Ev.ev = "setlimit"
            /\ N' = Ev.n
            /\ S' = IF Ev.s >= 0 /\ Ev.ds > Ev.s THEN Ev.ds ELSE Ev.s
            /\ H' = IF Ev.h >= 0 /\ Ev.heap > Ev.h THEN Ev.heap ELSE Ev.h
            /\ count' = IF Ev.n = N /\ "keepmeter" \in DOMAIN Ev THEN count ELSE 0
            /\ UNCHANGED run
StepEv == /\ Ev.ev = "step"
          /\ count' = IF Ev.ok = 1 THEN count + 1 ELSE count
          /\ Within(count', N) /\ Within(Ev.ds, S) /\ Within(Ev.heap, H)
          /\ UNCHANGED <<N, S, H, run>>
\* a whole call: only the state bounds can be observed independently
CallEv == /\ Ev.ev = "call"
          /\ Within(Ev.ds, S) /\ Within(Ev.heap, H)
          /\ UNCHANGED <<N, S, H, count, run>>

Next == l <= Len(Rec) /\ l' = l + 1 /\ (Reset \/ SetLimit \/ StepEv \/ CallEv)
Spec == Init /\ [][Next]_vars

Accepted == IF TLCGet("stats").diameter - 1 = Len(Rec) THEN TRUE
            ELSE Print(<<"REJECTED-AT", TLCGet("stats").diameter, Rec[TLCGet("stats").diameter]>>, FALSE)
=============================================================================
