------------------------------ MODULE Trace_Limits ------------------------------
(***************************************************************************)
(* Trace specification for C14.  Events are recorded after every API call   *)
(* of a run in which limits are set and changed between evaluations:        *)
(*   setlimit  n s h      (-1 = unlimited; the instruction meter restarts)  *)
(*   step      ok ds heap (one `next`; ds / heap = lengths from the dump)   *)
(*   call      ok ds heap (a whole eval / compile / run call)               *)
(* The specification keeps its OWN count of successfully executed           *)
(* instructions since the limit was set (it does not trust the              *)
(* implementation's meter) and requires, after every event,                 *)
(*     count <= N,  ds <= S,  heap <= H.                                    *)
(* A second independent witness of executed instructions is the output:     *)
(* every "%" on stdout was printed by one `print` instruction of its own    *)
(* (the driver's marker sources), also inside meta blocks of sources that    *)
(* are rejected afterwards; so  marks <= N  as well.  Setting the stack or   *)
(* heap limit alone ("keepmeter") does not hand out a new budget.            *)
(***************************************************************************)
EXTENDS Naturals, Integers, Sequences, TLC, Json, IOUtils

Rec == ndJsonDeserialize(IOEnv.TRACE)
VARIABLES l, N, S, H, count, run, marks
vars == <<l, N, S, H, count, run, marks>>
\* A limit set below the current size bounds growth, it cannot shrink what is already there:
\* S and H hold max(limit, size when the limit was set).
Ev == Rec[l]

Init == l = 1 /\ N = -1 /\ S = -1 /\ H = -1 /\ count = 0 /\ run = -1 /\ marks = 0
Marks == IF "marks" \in DOMAIN Ev THEN Ev.marks ELSE 0

Within(x, lim) == lim < 0 \/ x <= lim

Reset == Ev.ev = "reset" /\ N' = -1 /\ S' = -1 /\ H' = -1 /\ count' = 0 /\ run' = Ev.run /\ marks' = 0
SetLimit == /\ Ev.ev = "setlimit"
            /\ N' = IF "keepmeter" \in DOMAIN Ev THEN N ELSE Ev.n
            /\ S' = IF Ev.s >= 0 /\ Ev.ds > Ev.s THEN Ev.ds ELSE Ev.s
            /\ H' = IF Ev.h >= 0 /\ Ev.heap > Ev.h THEN Ev.heap ELSE Ev.h
            /\ count' = IF "keepmeter" \in DOMAIN Ev THEN count ELSE 0
            /\ marks' = IF "keepmeter" \in DOMAIN Ev THEN marks ELSE 0
            /\ UNCHANGED run
StepEv == /\ Ev.ev = "step"
          /\ count' = IF Ev.ok = 1 THEN count + 1 ELSE count
          /\ marks' = marks + Marks
          /\ Within(count', N) /\ Within(marks', N) /\ Within(Ev.ds, S) /\ Within(Ev.heap, H)
          /\ UNCHANGED <<N, S, H, run>>
\* a whole call: only the state bounds can be observed independently
CallEv == /\ Ev.ev = "call"
          /\ marks' = marks + Marks
          /\ Within(marks', N) /\ Within(Ev.ds, S) /\ Within(Ev.heap, H)
          /\ UNCHANGED <<N, S, H, count, run>>

Next == l <= Len(Rec) /\ l' = l + 1 /\ (Reset \/ SetLimit \/ StepEv \/ CallEv)
Spec == Init /\ [][Next]_vars

Accepted == IF TLCGet("stats").diameter - 1 = Len(Rec) THEN TRUE
            ELSE Print(<<"REJECTED-AT", TLCGet("stats").diameter, Rec[TLCGet("stats").diameter]>>, FALSE)
=============================================================================
