---------------------------- MODULE Trace_CloneObs ----------------------------
(***************************************************************************)
(* Observational trace specification for C03.  An interpreter instance is a *)
(* VALUE: what it renders (canonical dump incl. shared structure by value:   *)
(* bit-strings as bits, the canvas through its public pixels) is a function  *)
(* of the sequence of calls applied to it since boot, where a clone starts   *)
(* with its source's sequence.  After every event the harness records the    *)
(* dump hash of every live instance; the specification keeps each instance's *)
(* call sequence and the map  sequence -> dump  learned so far in this run,  *)
(* and requires every observation to agree with it.  Consequences:           *)
(*   (1) right after Clone(i -> j):  dump[j] = dump[i];                      *)
(*   (2) an event on i leaves the dump of every other instance unchanged;    *)
(*   (3) instances with equal call sequences (e.g. the same source evaluated *)
(*       on the original and on its clone) have equal dumps, results, output. *)
(***************************************************************************)
EXTENDS Naturals, Sequences, FiniteSets, TLC, Json, IOUtils
Rec == ndJsonDeserialize(IOEnv.TRACE)
Ids == 1..3
VARIABLES l, seq, seen
vars == <<l, seq, seen>>
Ev == Rec[l]
Init == l = 1 /\ seq = [i \in Ids |-> <<"dead">>] /\ seen = {}

NewSeq == CASE Ev.k = "reset" -> [i \in Ids |-> IF i = 1 THEN <<>> ELSE <<"dead">>]
            [] Ev.k = "call"  -> [seq EXCEPT ![Ev.i] = Append(@, Ev.c)]
            [] Ev.k = "clone" -> [seq EXCEPT ![Ev.j] = seq[Ev.i]]
Obs(s) == {<<s[i], Ev.dumps[i]>> : i \in {x \in Ids : s[x] # <<"dead">>}}
Consistent(known, obs) == \A p \in obs : \A q \in known \cup obs : q[1] = p[1] => q[2] = p[2]
Next == /\ l <= Len(Rec) /\ l' = l + 1
        /\ seq' = NewSeq
        /\ LET known == IF Ev.k = "reset" THEN {} ELSE seen IN
           /\ Consistent(known, Obs(NewSeq))
           /\ seen' = known \cup Obs(NewSeq)
Spec == Init /\ [][Next]_vars
Accepted == IF TLCGet("stats").diameter - 1 = Len(Rec) THEN TRUE
            ELSE Print(<<"REJECTED-AT", TLCGet("stats").diameter, Rec[TLCGet("stats").diameter]>>, FALSE)
=============================================================================
