------------------------------- MODULE Values -------------------------------
(***************************************************************************)
(* Cells of the xeh language as TLA+ records.  Every cell type has its own  *)
(* field name so that TLC never compares an integer with a string/Boolean.  *)
(* The JSON rendering used by the harness (harness/src/lib.rs cell_json)    *)
(* is field-for-field the same.                                             *)
(***************************************************************************)
EXTENDS Naturals, Integers, Sequences, FiniteSets, TLC

NilV      == [ty |-> "nil"]
FlagV(b)  == [ty |-> "flag", b |-> b]            \* b \in {0, 1}
IntV(n)   == [ty |-> "int", i |-> n]
StrV(s)   == [ty |-> "str", s |-> s]
VecV(xs)  == [ty |-> "vec", items |-> xs]
MapV(kv)  == [ty |-> "map", kv |-> kv]           \* association list <<key, val>>, canonical order by the operators
BitsV(b)  == [ty |-> "bits", b |-> b]            \* sequence over {0,1}
TagV(v, tags) == [ty |-> "tag", v |-> v, tags |-> tags]
TrueV     == FlagV(1)
FalseV    == FlagV(0)
BoolV(p)  == IF p THEN TrueV ELSE FalseV

IsNil(c)  == c.ty = "nil"
IsFlag(c) == c.ty = "flag"
IsInt(c)  == c.ty = "int"
IsStr(c)  == c.ty = "str"
IsVec(c)  == c.ty = "vec"
IsMap(c)  == c.ty = "map"
IsBits(c) == c.ty = "bits"
IsTag(c)  == c.ty = "tag"

\* Cell::value(): strip one tag wrapper (with_tags never nests wrappers)
Untag(c) == IF c.ty = "tag" THEN c.v ELSE c

Last(s)   == s[Len(s)]
Front(s)  == SubSeq(s, 1, Len(s) - 1)
Take(s, n) == SubSeq(s, 1, n)
Drop(s, n) == SubSeq(s, n + 1, Len(s))

\* PartialEq for Cell: tag-insensitive at every depth
RECURSIVE CellEq(_, _)
CellEq(a0, b0) ==
  LET a == Untag(a0)  b == Untag(b0) IN
  IF a.ty # b.ty THEN FALSE
  ELSE CASE a.ty = "nil"  -> TRUE
         [] a.ty = "flag" -> a.b = b.b
         [] a.ty = "int"  -> a.i = b.i
         [] a.ty = "str"  -> a.s = b.s
         [] a.ty = "real" -> a.s = b.s          \* reals are opaque literals in the models that use them as keys
         [] a.ty = "bits" -> a.b = b.b
         [] a.ty = "vec"  -> /\ Len(a.items) = Len(b.items)
                             /\ \A k \in 1..Len(a.items) : CellEq(a.items[k], b.items[k])
         [] a.ty = "map"  -> /\ Len(a.kv) = Len(b.kv)
                             /\ \A k \in 1..Len(a.kv) :
                                  \E j \in 1..Len(b.kv) : CellEq(a.kv[k][1], b.kv[j][1]) /\ CellEq(a.kv[k][2], b.kv[j][2])
         [] OTHER -> FALSE

\* cond_true(): nil is false, a flag is itself, anything else is a type error
CondOk(c)   == Untag(c).ty \in {"nil", "flag"}
CondTrue(c) == Untag(c).ty = "flag" /\ Untag(c).b = 1

\* The text `print` produces, as a sequence of pieces (the harness concatenates them)
RECURSIVE PrintSeq(_)
RECURSIVE PrintItems(_, _)
PrintItems(xs, k) == IF k > Len(xs) THEN <<>> ELSE PrintSeq(xs[k]) \o <<" ">> \o PrintItems(xs, k + 1)
PrintSeq(c0) == LET c == Untag(c0) IN
  CASE c.ty = "int"  -> <<ToString(c.i)>>
    [] c.ty = "nil"  -> <<"nil">>
    [] c.ty = "flag" -> <<IF c.b = 1 THEN "true" ELSE "false">>
    [] c.ty = "vec"  -> <<"[ ">> \o PrintItems(c.items, 1) \o <<"]">>
    [] OTHER -> <<"?">>

\* Error classes shared with the harness (err_class in harness/src/lib.rs)
ErrClasses == {"Unknown", "Parse", "Name", "ControlFlow", "Overflow", "DivZero", "Underflow",
               "RsUnderflow", "LsUnderflow", "Type", "IO", "Bounds", "Assert", "Internal", "Read",
               "Seek", "Match", "Bytestr", "Limit", "Context", "Local", "Msg", "User", "Exit"}
=============================================================================
