------------------------------- MODULE Cursor -------------------------------
(***************************************************************************)
(* The binary-parsing cursor of xeh (src/bitstr_ext.rs): current input,     *)
(* absolute bit offset, LIFO stash of suspended (input, offset) pairs, byte  *)
(* order, and the data stack.  A bit-string value carries its origin o (the  *)
(* absolute position of its first bit in the buffer it was cut from),        *)
(* because `offset`, `seek` and `find` speak absolute positions.             *)
(*                                                                          *)
(* Every word is a pure operator  c -> c'  where c.err names the outcome.    *)
(* The statement of C06 is built in as the shape of these operators and is   *)
(* re-checked as invariants / action properties by MC_C06:                   *)
(*   - a successful read of n bits returns bits [offset, offset+n) and       *)
(*     moves the offset by exactly n;                                        *)
(*   - a failing word leaves input, offset, stash and the rest of the stack  *)
(*     untouched (its own arguments are consumed);                           *)
(*   - start <= offset <= end, remain = end - offset;                        *)
(*   - close-bitstr restores the pair pushed by the matching open-bitstr.    *)
(* HUGE is a symbolic size with  offset + HUGE > end  for every input.       *)
(***************************************************************************)
EXTENDS Bits, TLC

BV(b, o)  == [ty |-> "bits", b |-> b, o |-> o]
IV(n)     == [ty |-> "int", i |-> n]
SV(s)     == [ty |-> "str", s |-> s]
NilC      == [ty |-> "nil"]
HUGE      == -1                      \* marker; never used arithmetically

Boot == [inp |-> BV(<<>>, 0), off |-> 0, stash |-> <<>>, big |-> FALSE, ds |-> <<>>, err |-> "none"]

End(c)    == c.inp.o + Len(c.inp.b)
Remain(c) == IF End(c) > c.off THEN End(c) - c.off ELSE 0
Ok(c)     == c.err = "none"
Clr(c)    == [c EXCEPT !.err = "none"]
Fail(c, k) == [c EXCEPT !.err = k]
Push(c, v) == [c EXCEPT !.ds = Append(@, v)]
PopN(c, n) == [c EXCEPT !.ds = SubSeq(@, 1, Len(@) - n)]
TopV(c)   == c.ds[Len(c.ds)]
Order(c)  == IF c.big THEN "big" ELSE "little"

\* bits [off, off+n) of the current input, when they exist
CanPeek(c, n) == n # HUGE /\ c.off >= c.inp.o /\ c.off + n <= End(c)
Peeked(c, n)  == BSub(c.inp.b, c.off - c.inp.o, c.off - c.inp.o + n)

\* ( n -- bits )
ReadBits(c0, n) ==
  LET c == Clr(c0) IN
  IF n = HUGE THEN Fail(c, "AnyErr")
  ELSE IF ~CanPeek(c, n) THEN Fail(c, "Read")
  ELSE [Push(c, BV(Peeked(c, n), c.off)) EXCEPT !.off = c.off + n]

SignedVal(p) == IF p[1] = 1 THEN ToNat(p) - Pow2(Len(p)) ELSE ToNat(p)

\* ( n -- int )   unsigned: at most 127 bits, signed: at most 128 bits
ReadInt(c0, n, signed) ==
  LET c == Clr(c0) IN
  IF n = HUGE THEN Fail(c, "AnyErr")
  ELSE IF ~CanPeek(c, n) THEN Fail(c, "Read")
  ELSE IF (~signed /\ n > 127) \/ (signed /\ n > 128) THEN Fail(c, "Overflow")
  ELSE IF n = 0 THEN [Push(c, IV(0)) EXCEPT !.off = c.off]
  ELSE LET p == Decode(Peeked(c, n), Order(c)) IN
       [Push(c, IV(IF signed THEN SignedVal(p) ELSE ToNat(p))) EXCEPT !.off = c.off + n]

\* ( n -- real ): only 32 and 64 are float lengths; the model's inputs are shorter, so only the error order matters
ReadFloat(c0, n) ==
  LET c == Clr(c0) IN
  IF n = HUGE THEN Fail(c, "AnyErr")
  ELSE IF ~CanPeek(c, n) THEN Fail(c, "Read")
  ELSE IF n \notin {32, 64} THEN Fail(c, "Msg") ELSE Fail(c, "OutOfModel")

\* ( pat -- bits )
Magic(c0, pat) ==
  LET c == Clr(c0) IN
  IF ~CanPeek(c, Len(pat)) THEN Fail(c, "Read")
  ELSE IF Peeked(c, Len(pat)) # pat THEN Fail(c, "Match")
  ELSE [Push(c, BV(pat, c.off)) EXCEPT !.off = c.off + Len(pat)]

\* ( pos -- )  absolute position
Seek(c0, pos) ==
  LET c == Clr(c0) IN
  IF pos = HUGE THEN Fail(c, "AnyErr")
  ELSE IF pos >= c.inp.o /\ pos <= End(c) THEN [c EXCEPT !.off = pos] ELSE Fail(c, "Seek")

\* ( pat -- pos | nil )  byte-wise search in the rest of the input; nothing moves
RestB(c) == BDrop(c.inp.b, c.off - c.inp.o)
RECURSIVE FindAt(_, _, _)
FindAt(rest, pat, k) == IF k * 8 + Len(pat) > Len(rest) THEN -1
                        ELSE IF BSub(rest, k * 8, k * 8 + Len(pat)) = pat THEN k ELSE FindAt(rest, pat, k + 1)
Find(c0, pat) ==
  LET c == Clr(c0) IN
  IF ~(c.off >= c.inp.o /\ c.off <= End(c)) THEN Fail(c, "Bounds")
  ELSE IF Len(pat) % 8 # 0 THEN Fail(c, "Bytestr")
  ELSE IF c.off % 8 # 0 \/ Len(RestB(c)) % 8 # 0 THEN Fail(c, "Bytestr")
  ELSE LET k == FindAt(RestB(c), pat, 0) IN
       IF k < 0 THEN Push(c, NilC) ELSE Push(c, IV(c.off + k * 8))

\* nulbytestr / cstr: bytes up to and including the first zero byte (or everything)
RECURSIVE NulLen(_, _)
NulLen(rest, k) == IF k * 8 >= Len(rest) THEN Len(rest)
                   ELSE IF BSub(rest, k * 8, k * 8 + 8) = Zeros(8) THEN (k + 1) * 8 ELSE NulLen(rest, k + 1)
NulStr(c0, asText) ==
  LET c == Clr(c0) IN
  IF ~(c.off >= c.inp.o /\ c.off <= End(c)) THEN Fail(c, "Bounds")
  ELSE IF Len(RestB(c)) % 8 # 0 THEN Fail(c, "Bytestr")
  ELSE LET n == NulLen(RestB(c), 0)  bits == BTake(RestB(c), n) IN
       [Push(c, IF asText THEN [ty |-> "cstr", b |-> bits] ELSE BV(bits, c.off)) EXCEPT !.off = c.off + n]

\* ( bits -- )
Open(c0) ==
  LET c == Clr(c0) IN
  IF c.ds = <<>> THEN Fail(c, "Underflow")
  ELSE IF TopV(c).ty # "bits" THEN Fail(PopN(c, 1), "Type")
  ELSE [PopN(c, 1) EXCEPT !.stash = Append(@, [inp |-> c.inp, off |-> c.off]), !.inp = TopV(c), !.off = TopV(c).o]
OpenLit(c0, bits) == Open(Push(Clr(c0), BV(bits, 0)))
Close(c0) ==
  LET c == Clr(c0) IN
  IF c.stash = <<>> THEN Fail(c, "Bounds")
  ELSE LET s == c.stash[Len(c.stash)] IN
       [c EXCEPT !.stash = SubSeq(@, 1, Len(@) - 1), !.inp = s.inp, !.off = s.off]

DropW(c0) == LET c == Clr(c0) IN IF c.ds = <<>> THEN Fail(c, "Underflow") ELSE PopN(c, 1)

\* a word with its argument:  k = "lit" (open a literal), "num" (numeric argument n), "pat" (bit pattern), "plain"
W(name, k, n, bits) == [w |-> name, k |-> k, n |-> n, bits |-> bits]
Apply(c, a) ==
  CASE a.w = "openlit"      -> OpenLit(c, a.bits)
    [] a.w = "open-bitstr"  -> Open(c)
    [] a.w = "close-bitstr" -> Close(c)
    [] a.w = "drop"         -> DropW(c)
    [] a.w = "bits"         -> ReadBits(c, a.n)
    [] a.w = "bytes"        -> ReadBits(c, IF a.n = HUGE THEN HUGE ELSE a.n * 8)
    [] a.w = "uint"         -> ReadInt(c, a.n, FALSE)
    [] a.w = "int"          -> ReadInt(c, a.n, TRUE)
    [] a.w = "u8"           -> ReadInt(c, 8, FALSE)
    [] a.w = "i8"           -> ReadInt(c, 8, TRUE)
    [] a.w = "u16"          -> ReadInt(c, 16, FALSE)
    [] a.w = "float"        -> ReadFloat(c, a.n)
    [] a.w = "seek"         -> Seek(c, a.n)
    [] a.w = "remain"       -> Push(Clr(c), IV(Remain(c)))
    [] a.w = "offset"       -> Push(Clr(c), IV(c.off))
    [] a.w = "magic"        -> Magic(c, a.bits)
    [] a.w = "find"         -> Find(c, a.bits)
    [] a.w = "nulbytestr"   -> NulStr(c, FALSE)
    [] a.w = "cstr"         -> NulStr(c, TRUE)
    [] a.w = "big"          -> [Clr(c) EXCEPT !.big = TRUE]
    [] a.w = "little"       -> [Clr(c) EXCEPT !.big = FALSE]


\* the invariants of C06
InRange(c) == c.inp.o <= c.off /\ c.off <= End(c)
=============================================================================
