-------------------------------- MODULE Words --------------------------------
(***************************************************************************)
(* The dictionary as a table (DESIGN section 3): name, argument types per   *)
(* position (deepest first) and class:                                       *)
(*   "computes"  the word computes a fresh result (which must carry no tags) *)
(*   "moves"     the word moves / selects existing cells (tags travel along) *)
(*               (a word that builds a NEW collection - reverse, sort, push,  *)
(*               slice, insert, remove - computes: the collection it returns  *)
(*               carries no tags, the elements inside keep theirs)            *)
(*   "fmt"       the word consults the formatting tag (#fmt)                 *)
(*   "effect"    only a side effect (stack change, output, variable)         *)
(* Numbers read from binary input carry len/big tags by design, so the read  *)
(* words are classed "moves" (their results are not required to be tag-free).*)
(* The tag words themselves (tags, with-tags, insert-tag, remove-tag,        *)
(* get-tag) are not in the table: C13 excludes them by its own quantifier.   *)
(***************************************************************************)
EXTENDS Naturals, Sequences, FiniteSets

Wd(n, ins, cls) == [w |-> n, ins |-> ins, cls |-> cls]

Table == <<
  Wd("dup", <<"any">>, "moves"), Wd("drop", <<"any">>, "effect"), Wd("swap", <<"any", "int">>, "moves"),
  Wd("over", <<"any", "int">>, "moves"), Wd("rot", <<"any", "int", "str">>, "moves"),
  Wd("+", <<"int", "int">>, "computes"), Wd("-", <<"int", "int">>, "computes"), Wd("*", <<"int", "int">>, "computes"),
  Wd("/", <<"int", "int">>, "computes"), Wd("rem", <<"int", "int">>, "computes"),
  Wd("+", <<"real", "real">>, "computes"), Wd("/", <<"real", "real">>, "computes"), Wd("rem", <<"real", "real">>, "computes"),
  Wd("neg", <<"int">>, "computes"), Wd("abs", <<"int">>, "computes"), Wd("neg", <<"real">>, "computes"),
  Wd("min", <<"int", "int">>, "moves"), Wd("max", <<"int", "int">>, "moves"),
  Wd("<", <<"int", "int">>, "computes"), Wd("<=", <<"int", "int">>, "computes"), Wd(">", <<"int", "int">>, "computes"),
  Wd(">=", <<"real", "real">>, "computes"), Wd("==", <<"int", "int">>, "computes"), Wd("<>", <<"int", "int">>, "computes"),
  Wd("and", <<"flag", "flag">>, "computes"), Wd("or", <<"flag", "flag">>, "computes"), Wd("xor", <<"flag", "flag">>, "computes"),
  Wd("not", <<"flag">>, "computes"),
  Wd("rem", <<"int", "zero">>, "computes"), Wd("/", <<"int", "zero">>, "computes"), Wd("rem", <<"zero", "int">>, "computes"),
  \* the tag words given a tag MAP that carries tags itself
  Wd("with-tags tags", <<"int", "map">>, "moves"), Wd("with-tags 1 +", <<"int", "map">>, "computes"), Wd("with-tags 1 get-tag", <<"str", "map">>, "moves"),
  \* words that consume a condition (nil counts as false)
  Wd("if 1 else 2 then", <<"flag">>, "computes"), Wd("if 1 else 2 then", <<"nil">>, "computes"),
  Wd("assert 3", <<"flag">>, "computes"), Wd("assert 3", <<"nil">>, "computes"),
  Wd("0 swap begin swap 1 + swap dup until drop", <<"flag">>, "computes"),
  Wd("0 swap begin dup while drop 1 + nil repeat drop", <<"nil">>, "computes"), Wd("0 swap begin dup while drop 1 + nil repeat drop", <<"flag">>, "computes"),
  Wd("band", <<"int", "int">>, "computes"), Wd("bor", <<"int", "int">>, "computes"), Wd("bxor", <<"int", "int">>, "computes"),
  Wd("bnot", <<"int">>, "computes"), Wd("bsl", <<"int", "int">>, "computes"), Wd("bsr", <<"int", "int">>, "computes"),
  Wd("popcnt", <<"int">>, "computes"), Wd(">real", <<"int">>, "computes"), Wd(">int", <<"real">>, "computes"),
  Wd(">real", <<"real">>, "moves"), Wd(">int", <<"int">>, "moves"), Wd("round", <<"real">>, "computes"),
  Wd("zero?", <<"int">>, "computes"), Wd("positive?", <<"real">>, "computes"), Wd("negative?", <<"int">>, "computes"),
  Wd("equal?", <<"any", "any">>, "computes"), Wd("equal?", <<"vec", "vec">>, "computes"),
  Wd("nil?", <<"nil">>, "computes"), Wd("nil?", <<"int">>, "computes"),
  Wd("int?", <<"int">>, "computes"), Wd("real?", <<"real">>, "computes"), Wd("str?", <<"str">>, "computes"),
  Wd("vec?", <<"vec">>, "computes"), Wd("bitstr?", <<"bits">>, "computes"), Wd("bool?", <<"flag">>, "computes"),
  Wd("length", <<"vec">>, "computes"), Wd("length", <<"str">>, "computes"), Wd("length", <<"bits">>, "computes"),
  Wd("reverse", <<"vec">>, "computes"), Wd("sort", <<"vec">>, "computes"), Wd("push", <<"any", "vec">>, "computes"),
  Wd("unbox", <<"vec">>, "moves"), Wd("collect", <<"any", "any", "int2">>, "moves"),
  Wd("nth", <<"vec", "idx">>, "moves"), Wd("get", <<"vec", "idx">>, "moves"), Wd("get", <<"map", "key">>, "moves"),
  Wd("insert", <<"map", "any", "key">>, "computes"), Wd("remove", <<"map", "key">>, "computes"),
  Wd("slice", <<"vec", "idx", "int2">>, "computes"), Wd("slice", <<"vec", "zero", "three">>, "computes"), Wd("slice", <<"str", "idx", "int2">>, "computes"),
  Wd("slice", <<"str", "zero", "three">>, "computes"), Wd("collect", <<"any", "zero">>, "computes"),
  Wd("concat", <<"svec">>, "fmt"), Wd("join", <<"svec", "str">>, "fmt"), Wd("str>number", <<"numstr">>, "fmt"),
  Wd("print", <<"any">>, "fmt"), Wd("println", <<"int">>, "fmt"),
  Wd("assert", <<"flag">>, "effect"), Wd("assert-eq", <<"int", "int">>, "effect"), Wd("error", <<"str">>, "effect"),
  Wd("foreach I loop", <<"vec">>, "moves"), Wd("if 1 else 2 then", <<"flag">>, "effect"),
  Wd("2 swap do I loop", <<"idx">>, "effect"), Wd("case 5 of 1 endof 2 swap drop endcase", <<"int">>, "effect"),
  Wd("var tv tv", <<"any">>, "moves"),
  Wd("bitstr-len", <<"bits">>, "computes"), Wd("bitstr-append", <<"bits", "bits">>, "computes"), Wd("bitstr-not", <<"bits">>, "computes"),
  Wd("bitstr-and", <<"bits", "bits">>, "computes"), Wd("bitstr-or", <<"bits", "bits">>, "computes"), Wd("bitstr-xor", <<"bits", "bits">>, "computes"),
  Wd("bitstr>hex", <<"bits">>, "computes"), Wd("hex>bitstr", <<"hexstr">>, "computes"), Wd(">bitstr", <<"vec">>, "computes"),
  Wd(">bitstr", <<"str">>, "computes"), Wd(">bitstr", <<"bits">>, "moves"), Wd("bitstr>utf8", <<"utf8bits">>, "computes"),
  Wd("base64", <<"bits">>, "computes"), Wd("base32", <<"str">>, "computes"), Wd("zero85", <<"bits4">>, "computes"),
  Wd("base64>", <<"b64str">>, "computes"), Wd("base32hex", <<"vec">>, "computes"),
  Wd("u8!", <<"int">>, "computes"), Wd("i16be!", <<"int">>, "computes"), Wd("int!", <<"int", "int2">>, "computes"), Wd("f64!", <<"real">>, "computes"),
  Wd("open-bitstr u8", <<"bits">>, "moves"), Wd("open-bitstr 4 bits", <<"bits">>, "moves"),
  Wd("open-bitstr remain", <<"bits">>, "computes"), Wd("|01| open-bitstr seek offset", <<"idx">>, "computes"),
  Wd("|01 02| open-bitstr bits", <<"int2">>, "moves"), Wd("|41 00| open-bitstr magic", <<"magicpat">>, "moves"),
  Wd("emit output", <<"bits">>, "moves"), Wd(">b", <<"int">>, "computes"), Wd(">kb", <<"int">>, "computes"),
  Wd("#( 1 #) +", <<"int">>, "computes")
>>

\* source text of one sample value per argument type
Sample(t) ==
  CASE t = "any" -> "7" [] t = "int" -> "5" [] t = "int2" -> "2" [] t = "zero" -> "0" [] t = "three" -> "3" [] t = "idx" -> "1" [] t = "real" -> "2.5" [] t = "flag" -> "true"
    [] t = "nil" -> "nil" [] t = "str" -> "\"ab\"" [] t = "numstr" -> "\"12\"" [] t = "hexstr" -> "\"ff01\"" [] t = "b64str" -> "\"QUI=\""
    [] t = "vec" -> "[ 3 1 2 ]" [] t = "svec" -> "[ \"a\" 5 \"b\" ]" [] t = "map" -> "{ 1 \"k\" 2 \"j\" }" [] t = "key" -> "\"k\""
    [] t = "bits" -> "|ff 01|" [] t = "bits4" -> "|01 02 03 04|" [] t = "magicpat" -> "|41|" [] t = "utf8bits" -> "|41 42|"
\* the same value with one element inside it tagged (only for containers)
HasInner(t) == t \in {"vec", "svec", "map"}
InnerTagged(t, tag) ==
  CASE t = "vec"  -> "[ 3 1 " \o tag \o " 2 ]"
    [] t = "svec" -> "[ \"a\" " \o tag \o " 5 \"b\" ]"
    [] t = "map"  -> "{ 1 " \o tag \o " \"k\" 2 \"j\" }"

\* phrases through which a value travels without being computed on (prefix, suffix around the value): what arrives
\* must be the value that was sent, carrying exactly the same tag map
Carriers == << <<"", "var zv zv">>, <<"#(", "const zk #) zk">>, <<"#(", "#)">>, <<"#(", "#) var zw zw">>, <<": zf local zl zl ;", "zf">>,
               <<": zg", "; zg">>, <<"[", "] 0 get">>, <<"{", "1 } 1 get">>, <<"", "dup drop">>, <<"1", "swap drop">>, <<"", "1 collect unbox">>,
               <<"", "let zq zq">>, <<": zh #(", "#) ; zh">>, <<"[ #(", "#) ] 0 get">> >>
CarryTypes == <<"int", "zero", "real", "flag", "nil", "str", "vec", "map", "bits">>

\* (the 5th and 6th tag a value that is tagged already)
TagMaps == << "{ } with-tags", "{ 1 \"z\" } with-tags", "^hex", "{ 9 \"t\" \"u\" insert-tag \"z\" } with-tags",
             "1 \"a\" insert-tag 2 \"b\" insert-tag", "{ 1 \"z\" } with-tags 3 \"y\" insert-tag \"z\" remove-tag" >>
=============================================================================
