------------------------------- MODULE MC_C10 -------------------------------
(***************************************************************************)
(* C10 as a two-run statement on the design (self-composition).  For every  *)
(* scenario  h1 . (pre bad trail) . probes  and its twin  h1 . probes :      *)
(*  - if the middle source is rejected while it is read or compiled, every   *)
(*    probe behaves in both runs alike, and mode / nesting / pending flow /  *)
(*    pending input after the rejected source are what they were before it;  *)
(*  - if it fails at run time, the probes run only their own code.           *)
(* Both submission styles: eval; compile followed by run (the REPL's).        *)
(* One REPLAY line per scenario with the design's predicted probe outcomes.   *)
(***************************************************************************)
EXTENDS Values, TLC, Json

CONSTANTS Legacy, Sample     \* Sample: 0 = all scenarios, k > 0 = every k-th prior history / trailing text only

X == INSTANCE Xeh

LitVal == [x \in {"0", "1", "2", "3", "4", "5", "7"} |-> CASE x = "0" -> 0 [] x = "1" -> 1 [] x = "2" -> 2 [] x = "3" -> 3
                                                           [] x = "4" -> 4 [] x = "5" -> 5 [] x = "7" -> 7]
\* string literals (texts that a meta block injects with `~)`)
StrLit == [x \in {"\"7 foo\"", "\"1 then 2\"", "\": zz 1\"", "\"1 2\"", "\"drop\""} |->
             CASE x = "\"7 foo\"" -> "7 foo" [] x = "\"1 then 2\"" -> "1 then 2" [] x = "\": zz 1\"" -> ": zz 1"
               [] x = "\"1 2\"" -> "1 2" [] x = "\"drop\"" -> "drop"]
Tok(s) == IF s \in DOMAIN LitVal THEN X!TLit(IntV(LitVal[s]), 0)
          ELSE IF s \in DOMAIN StrLit THEN X!TLit(StrV(StrLit[s]), 0)
          ELSE IF s \in {"2d", "0xZ"} THEN X!TBad(s, 0) ELSE X!TWord(s, 0)
Toks(ss) == [i \in 1..Len(ss) |-> Tok(ss[i])]

H1  == << <<>>, <<"1", "2">>, <<":", "h", "7", ";">>, <<"5", "var", "v">>,
          <<"3", "drop", "drop", "5">>, <<"1", "2", "0", "/", "7">> >>           \* histories that failed at run time
Pre == << <<>>, <<"1">>, <<"1", "if">>, <<"begin">>, <<"2", "0", "do">>, <<"[">>, <<":", "g">>, <<"1", "case">>,
          <<"#(">>, <<"#(", "1", "if">>, <<"7", "var", "q">>, <<":", "g", "1", ";">>, <<"[", "1", "true", "if">>,
          <<":", "g", "2", "0", "do">>, <<"#(", "3", "4">>, <<"1", "#(", "3">>, <<"#(", "\"1 2\"", "~)">>, <<"1", "#(", "\"drop\"", "~)">> >>
Bad == << <<"foo">>, <<"2d">>, <<"then">>, <<"loop">>, <<"]">>, <<";">>, <<"#)">>, <<"repeat">>,
          <<"#(", "1", "0", "/", "#)">>, <<"#(", "drop", "#)">>, <<"var">>, <<"endcase">>,
          <<"#(", "\"7 foo\"", "~)">>, <<"#(", "\"1 then 2\"", "~)">>, <<"#(", "\": zz 1\"", "~)">>, <<"~)">> >>
Trl == << <<>>, <<"2", "3">>, <<":", "g", ";">>, <<"then">> >>
Prb == << <<<<"4">>>>, <<<<"depth">>>>, <<<<"2", "var", "x", "x">>>>, <<<<":", "f", "1", ";", "f">>>>,
          <<<<"1", "true", "if", "2", "then">>>>, <<<<"[", "1", "]">>>>, <<<<"#(", "1", "#)">>>>, <<<<"v">>>>, <<<<"g">>>>,
          <<<<"q">>>>, <<<<"h">>>>, <<<<"2", "0", "do", "I", "loop">>>>, <<<<"I">>>>, <<<<"2", "0", "do", "J", "loop">>>>,
          <<<<"4">>, <<"depth">>>>, <<<<"1", "if">>, <<"2", "var", "x", "x">>>>, <<<<":", "f", "1", ";">>, <<"f", "f">>>>,
          <<<<"foo">>, <<"4">>>> >>
\* run-time failing middle sources (well-formed; the failure happens when the code runs)
RtBad == << <<"1", "0", "/", "2", "3">>, <<"drop">>, <<"1", "2", "0", "do", "I", "drop", "drop", "loop", "5">>,
            <<":", "g", "1", "0", "/", ";", "g", "2">> >>

\* submission styles: eval; repl = compile then run (what the REPL does);
\* defer = the earlier source and the rejected one are only compiled, `run` comes afterwards;
\* step  = a source failing at run time is compiled and single-stepped until it fails
Styles == {"eval", "repl"}

VARIABLES sc, verdict
vars == <<sc, verdict>>

Scen == [kind : {"build"}, h : 1..Len(H1), p : 1..Len(Pre), b : 1..Len(Bad), t : 1..Len(Trl), q : 1..Len(Prb), style : Styles \cup {"defer"}]
   \cup [kind : {"run"}, h : 1..Len(H1), p : {1}, b : 1..Len(RtBad), t : {1}, q : 1..Len(Prb), style : Styles \cup {"step"}]
Keep(s) == Sample = 0 \/ (s.kind = "run") \/ ((s.h + s.t + s.p) % Sample = 0)

Init == sc \in {s \in Scen : Keep(s)} /\ verdict = "todo"

\* one API-level submission in the given style
Do(m, ss, style) ==
  IF style = "eval" THEN X!Submit(m, X!Label(Toks(ss), m.srcs + 1), "eval")
  ELSE LET c == X!Submit(m, X!Label(Toks(ss), m.srcs + 1), "compile") IN IF X!Ok(c) THEN X!RunApi(c) ELSE c
CompileOnly(m, ss) == X!Submit(m, X!Label(Toks(ss), m.srcs + 1), "compile")
RECURSIVE StepAll(_, _)
StepAll(m, fuel) == IF ~X!Ok(m) \/ ~X!Running(m) \/ fuel = 0 THEN m ELSE StepAll(X!NextApi(m), fuel - 1)
\* the earlier source, the middle source and the probes in the roles a style gives them
DoH1(m, ss, style) == IF style = "defer" THEN (IF ss = <<>> THEN m ELSE CompileOnly(m, ss)) ELSE Do(m, ss, IF style = "step" THEN "repl" ELSE style)
DoMid(m, ss, style) == IF style = "defer" THEN CompileOnly(m, ss)
                       ELSE IF style = "step" THEN (LET c == CompileOnly(m, ss) IN IF X!Ok(c) THEN StepAll(c, 600) ELSE c)
                       ELSE Do(m, ss, style)
PStyle(style) == IF style \in {"defer", "step"} THEN "repl" ELSE style
Clr(m) == m
Obs(m) == [err |-> m.err, vis |-> X!Visible(m), out |-> m.out]
NoOut(m) == [m EXCEPT !.out = <<>>]

RECURSIVE Probes(_, _, _)
Probes(m, ps, style) == IF ps = <<>> THEN <<>>
                        ELSE LET r == Do(NoOut(m), Head(ps), style) IN <<Obs(r)>> \o Probes(r, Tail(ps), style)

Middle(s) == IF s.kind = "build" THEN Pre[s.p] \o Bad[s.b] \o Trl[s.t] ELSE RtBad[s.b]
Boot == [X!Boot EXCEPT !.ilim = 500]
Shape(m) == [mode |-> m.ctx.mode, nest |-> Len(m.nested), flow |-> Len(m.fs), inputs |-> Len(m.input)]

Judge(s) ==
  LET s0   == DoH1(Boot, H1[s.h], s.style)
      bad  == DoMid(NoOut(s0), Middle(s), s.style)
      \* defer: `run` now executes whatever was compiled before the rejected source arrived
      ra   == IF s.style = "defer" THEN X!RunApi(NoOut(bad)) ELSE bad
      rb   == IF s.style = "defer" THEN X!RunApi(NoOut(s0)) ELSE s0
      with == (IF s.style = "defer" THEN <<Obs(ra)>> ELSE <<>>) \o Probes(ra, Prb[s.q], PStyle(s.style))
      without == (IF s.style = "defer" THEN <<Obs(rb)>> ELSE <<>>) \o Probes(rb, Prb[s.q], PStyle(s.style))
      rejectedAtBuild == ~X!Ok(bad) /\ Len(bad.code) = Len(s0.code)      \* nothing of it was kept
  IN [ h1ok |-> X!Ok(s0), baderr |-> bad.err, with |-> with, without |-> without,
       shape0 |-> Shape(s0), shape1 |-> Shape(bad), depth0 |-> Len(X!Visible(s0)), depth1 |-> Len(X!Visible(bad)),
       badout |-> bad.out,
       verdict |->
         IF ~X!Ok(s0) /\ s.h <= 4 THEN "skip-h1"
         ELSE IF X!Ok(bad) THEN "skip-not-rejected"
         ELSE IF rejectedAtBuild
              THEN (IF with = without /\ Shape(bad) = Shape(s0) /\ X!Visible(bad) = X!Visible(s0) THEN "ok-build" ELSE "VIOLATION-build")
              ELSE (IF Shape(bad) = Shape(s0) THEN "ok-runtime" ELSE "VIOLATION-runtime") ]

Step == verdict = "todo" /\ verdict' = Judge(sc).verdict /\ UNCHANGED sc
Spec == Init /\ [][Step]_vars

NoViolation == verdict \notin {"VIOLATION-build", "VIOLATION-runtime"}

Export == verdict # "todo" =>
  LET j == Judge(sc) IN
  PrintT(<<"REPLAY", ToJson([kind |-> (IF j.verdict \in {"ok-build", "VIOLATION-build"} THEN "build" ELSE "run"), style |-> sc.style, h1 |-> H1[sc.h], middle |-> Middle(sc), probes |-> Prb[sc.q],
                             verdict |-> j.verdict, baderr |-> j.baderr, with |-> j.with, without |-> j.without,
                             depth0 |-> j.depth0, depth1 |-> j.depth1, badout |-> j.badout])>>)
=============================================================================
