------------------------------- MODULE MC_C05 -------------------------------
(***************************************************************************)
(* C05: number <-> bits codecs.  A number of width w is its MSB-first bit   *)
(* pattern; Encode/Decode (Bits.tla) are the byte-order permutations.  TLC   *)
(* checks the laws on the specification for every width 1..128, both orders  *)
(* and a family of patterns (zero, all ones, every single-bit value, sign    *)
(* boundaries, alternating, a byte-distinct pattern), and for ALL values at  *)
(* small widths, and exports each case for replay at all 8 bit offsets.      *)
(***************************************************************************)
EXTENDS Bits, TLC, Json

CONSTANTS MaxW, SmallW
Orders == {"big", "little"}
Distinct128 == Flatten([k \in 1..16 |-> FromNat(Mod(k * 17 + 1, 256), 8)])     \* 16 different bytes

Family(w) == { Zeros(w), Rep(1, w), <<1>> \o Zeros(w - 1), <<0>> \o Rep(1, w - 1),
               [i \in 1..w |-> Mod(i, 2)], [i \in 1..w |-> Mod(i + 1, 2)],
               SubSeq(Distinct128, 129 - w, 128) }
             \cup { [i \in 1..w |-> IF i = k THEN 1 ELSE 0] : k \in 1..w }
             \cup { [i \in 1..w |-> IF i = k THEN 0 ELSE 1] : k \in 1..w }
Exhaustive(w) == { FromNat(v, w) : v \in 0..(Pow2(w) - 1) }

VARIABLES c, ready
vars == <<c, ready>>
Init == /\ ready = FALSE
        /\ \/ \E w \in 1..MaxW, o \in Orders : \E p \in Family(w) : c = [w |-> w, order |-> o, value |-> p, kind |-> "int"]
           \/ \E w \in 1..SmallW, o \in Orders : \E p \in Exhaustive(w) : c = [w |-> w, order |-> o, value |-> p, kind |-> "int"]
           \/ \E w \in {32, 64}, o \in Orders : \E p \in Family(w) : c = [w |-> w, order |-> o, value |-> p, kind |-> "float"]
Step == ~ready /\ ready' = TRUE /\ UNCHANGED c
Spec == Init /\ [][Step]_vars

Wire == Encode(c.value, c.order)
\* the laws (checked on the specification itself)
RoundTrip   == Decode(Wire, c.order) = c.value
LengthLaw   == Len(Wire) = c.w
BigIsMsb    == c.order = "big" => Wire = c.value
ByteReverse == (c.order = "little" /\ Mod(c.w, 8) = 0) => Wire = Flatten(Reverse(GroupsMsb(c.value)))   \* platform little-endian layout
ShortLast   == (c.order = "little" /\ Mod(c.w, 8) # 0 /\ c.w > 8) => BDrop(Wire, c.w - Mod(c.w, 8)) = BTake(c.value, Mod(c.w, 8))
SmallNat    == c.w <= SmallW => ToNat(Decode(Wire, c.order)) = ToNat(c.value)
Laws == RoundTrip /\ LengthLaw /\ BigIsMsb /\ ByteReverse /\ ShortLast /\ SmallNat

Export == ready => PrintT(<<"REPLAY", ToJson([w |-> c.w, order |-> c.order, kind |-> c.kind, value |-> c.value, wire |-> Wire])>>)
=============================================================================
