------------------------------- MODULE MC_C15 -------------------------------
(***************************************************************************)
(* C15 on the design: for every generated program the drive modes           *)
(*   eval | compile then run | compile then single-step to the end          *)
(* each with reverse recording off and on, end in the same observable       *)
(* state: result (error class), visible data stack, heap (all variables)    *)
(* and output.  This is not trivial on the design: eval runs the code when  *)
(* its Eval context closes while compile+run executes it in the enclosing   *)
(* context, and recording adds a write to every primitive (one of them,     *)
(* `over`, even pops an extra item that a later log entry restores).        *)
(* One REPLAY line per program carries the reference's prediction (Src.tla) *)
(* which the harness checks in all six modes on the real crate.             *)
(***************************************************************************)
EXTENDS ProgGen

Next == GenNext
Spec == Init /\ [][Next]_vars

InsnSmall == 25
TokFuel   == InsnSmall * (Len(toks) + 1) + 1
InsnBig   == 2000
Ltoks == X!Label(toks, 1)

B(rec, lim) == [X!Boot EXCEPT !.rec = rec, !.ilim = lim]
RunApi(m)  == X!Run([m EXCEPT !.err = "none", !.errv = NilV])
RECURSIVE StepAll(_)
StepAll(m) == IF ~X!Ok(m) \/ ~X!Running(m) THEN m ELSE StepAll(X!Step(m))

ByEval(rec, lim)  == X!Submit(B(rec, lim), Ltoks, "eval")
ByRun(rec, lim)   == LET c == X!Submit(B(rec, lim), Ltoks, "compile") IN IF X!Ok(c) THEN RunApi(c) ELSE c
ByStep(rec, lim)  == LET c == X!Submit(B(rec, lim), Ltoks, "compile") IN IF X!Ok(c) THEN StepAll(c) ELSE c

Obs(m) == [err |-> m.err, ds |-> X!Visible(m), heap |-> m.heap, out |-> m.out]

SixAgree(lim) ==
  LET o == Obs(ByEval(FALSE, lim)) IN
  /\ Obs(ByEval(TRUE, lim)) = o
  /\ Obs(ByRun(FALSE, lim)) = o  /\ Obs(ByRun(TRUE, lim)) = o
  /\ Obs(ByStep(FALSE, lim)) = o /\ Obs(ByStep(TRUE, lim)) = o

Ref   == S!SEval(toks, TokFuel)
Below(ds, a) == IF Len(ds) >= a THEN SubSeq(ds, 1, Len(ds) - a) ELSE <<>>
VarSeq(r) == LET names == S!VarNames(toks) IN [nm \in names |-> S!VarValue(toks, r, nm)]
Kind(r) == IF r.skip THEN "skip" ELSE IF r.err = "none" THEN "done" ELSE IF r.err = "timeout" THEN "timeout" ELSE "fail"

Agree == LET r == Ref IN IF Kind(r) = "timeout" THEN SixAgree(InsnSmall) ELSE SixAgree(InsnBig)

Replay ==
  LET r == Ref
      base == [src |-> SrcText, kind |-> Kind(r), agree |-> Agree] IN
  CASE Kind(r) = "skip"    -> base
    [] Kind(r) = "done"    -> base @@ [ds |-> r.ds, out |-> r.out, vars |-> VarSeq(r), limit |-> 200000]
    [] Kind(r) = "fail"    -> base @@ [cls |-> r.err, below |-> Below(r.ds, r.arity), slack |-> Len(r.ds) - Len(Below(r.ds, r.arity)),
                                       out |-> r.out, limit |-> 200000]
    [] Kind(r) = "timeout" -> base @@ [limit |-> InsnSmall]

Export == done => PrintT(<<"REPLAY", ToJson(Replay)>>)
=============================================================================
