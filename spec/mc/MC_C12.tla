------------------------------- MODULE MC_C12 -------------------------------
(***************************************************************************)
(* C12.  Mode "map": every sequence of insert / remove / get (and a final    *)
(* map literal built from the same pairs) over a key universe that crosses   *)
(* all cell types, starting from the empty map, with EVERY intermediate map  *)
(* kept alive: the stack predicted at the end contains all versions, so a    *)
(* version changed by a later operation is a mismatch (collections are       *)
(* values).  Mode "seq": vector and string words at every index class.       *)
(***************************************************************************)
EXTENDS Collections, TLC, Json

CONSTANTS Mode, MaxDepth, KeySet

\* key universe: [txt: source text, c: cell]
K(txt, c) == [txt |-> txt, c |-> c]
RealV(s) == [ty |-> "real", s |-> s]
AllKeys == { K("nil", NilV), K("true", TrueV), K("false", FalseV), K("0", IntV(0)), K("1", IntV(1)), K("-1", IntV(-1)),
             K("1.5", RealV("1.5")), K("1.0", RealV("1.0")), K("\"\"", StrV("")), K("\"a\"", StrV("a")), K("\"1\"", StrV("1")),
             K("|ff|", BitsV(<<1,1,1,1,1,1,1,1>>)), K("| |", BitsV(<<>>)), K("[ ]", VecV(<<>>)), K("[ 1 ]", VecV(<<IntV(1)>>)),
             K("{ }", MapV(<<>>)), K("1 \"t\" \"k\" insert-tag", IntV(1)) }
OrderedKeys == { k \in AllKeys : k.c.ty = "int" } \cup { K("2", IntV(2)), K("7", IntV(7)), K("-5", IntV(-5)) }
StrKeys == { K("\"\"", StrV("")), K("\"a\"", StrV("a")), K("\"1\"", StrV("1")), K("\"b\"", StrV("b")), K("\"ab\"", StrV("ab")) }
\* real keys, all mutually comparable; the two zeros are equal (`equal?`, IEEE) and therefore ONE key
RealKeys == { K("1.5", RealV("1.5")), K("1.0", RealV("1.0")), K("0.0", RealV("0.0")), K("-0.0", RealV("0.0")), K("-2.5", RealV("-2.5")) }
Keys == IF KeySet = "all" THEN AllKeys ELSE IF KeySet = "int" THEN OrderedKeys ELSE IF KeySet = "real" THEN RealKeys ELSE StrKeys

VARIABLES m, stack, path, vers
vars == <<m, stack, path, vers>>
\* stack: predicted data stack (every version of the map and every get result)
Init == m = <<>> /\ stack = <<MapV(<<>>)>> /\ path = <<>> /\ vers = 1

Ins == \E k \in Keys : LET v == IntV(10 + Len(path)) IN
         /\ m' = MInsert(m, k.c, v)
         /\ stack' = Append(stack, MapV(MInsert(m, k.c, v)))
         /\ path' = Append(path, [op |-> "insert", k |-> k.txt, v |-> ToString(10 + Len(path))])
Rem == \E k \in Keys :
         /\ m' = MRemove(m, k.c)
         /\ stack' = Append(stack, MapV(MRemove(m, k.c)))
         /\ path' = Append(path, [op |-> "remove", k |-> k.txt, v |-> ""])
Get == \E k \in Keys :
         /\ m' = m
         /\ stack' = Append(Append(stack, MGet(m, k.c)), MapV(m))
         /\ path' = Append(path, [op |-> "get", k |-> k.txt, v |-> ""])
Next == Mode = "map" /\ Len(path) < MaxDepth /\ (Ins \/ Rem \/ Get) /\ vers' = vers + 1
Spec == Init /\ [][Next]_vars

\* one entry per key, whatever the history
OneValuePerKey == \A i, j \in 1..Len(m) : i # j => ~CellEq(m[i][1], m[j][1])
KeyTypes == {IF path[i].k \in {k.txt : k \in AllKeys} THEN (CHOOSE k \in AllKeys : k.txt = path[i].k).c.ty ELSE "int" : i \in 1..Len(path)}
Export == (Mode = "map" /\ Len(path) = MaxDepth) =>
            PrintT(<<"REPLAY", ToJson([mode |-> "map", path |-> path, stack |-> stack, final |-> m, keytypes |-> KeyTypes])>>)

\* ---------------------------------------------------------------- sequences (evaluated in the initial state only)
Vecs == << <<>>, <<IntV(1)>>, <<IntV(1), IntV(2), IntV(3)>>, <<IntV(3), NilV, IntV(1), IntV(2)>> >>
VecTxt == << "[ ]", "[ 1 ]", "[ 1 2 3 ]", "[ 3 nil 1 2 ]" >>
Idx == {0, 1, 2, 3, 4, -1, -3, -4, -5, HUGE, -HUGE}
ItemOrErr(s, i) == IF i < 0 THEN [k |-> "err"] ELSE [k |-> "val", v |-> s[i + 1]]
SeqCases ==
  { [w |-> "nth", coll |-> VecTxt[n], args |-> <<i>>, exp |-> ItemOrErr(Vecs[n], NthIndex(Len(Vecs[n]), i))] : n \in 1..4, i \in Idx }
  \cup { [w |-> "get", coll |-> VecTxt[n], args |-> <<i>>, exp |-> ItemOrErr(Vecs[n], GetIndex(Len(Vecs[n]), i))] : n \in 1..4, i \in Idx }
  \cup { [w |-> "slice", coll |-> VecTxt[n], args |-> <<i, j>>,
          exp |-> [k |-> IF i \in {HUGE, -HUGE} \/ j \in {HUGE, -HUGE} THEN "valorerr" ELSE "val", v |-> VecV(Slice(Vecs[n], i, j))]] : n \in 1..4, i \in Idx, j \in Idx }
  \cup { [w |-> "reverse", coll |-> VecTxt[n], args |-> <<>>, exp |-> [k |-> "val", v |-> VecV(Rev(Vecs[n]))]] : n \in 1..4 }
  \cup { [w |-> "length", coll |-> VecTxt[n], args |-> <<>>, exp |-> [k |-> "val", v |-> IntV(Len(Vecs[n]))]] : n \in 1..4 }
  \cup { [w |-> "push", coll |-> VecTxt[n], args |-> <<>>, exp |-> [k |-> "val", v |-> VecV(Append(Vecs[n], IntV(9)))]] : n \in 1..4 }
  \cup { [w |-> "unboxcollect", coll |-> VecTxt[n], args |-> <<>>, exp |-> [k |-> "val", v |-> VecV(Vecs[n])]] : n \in 1..4 }
  \cup { [w |-> "sort", coll |-> "[ 3 1 2 1 -5 ]", args |-> <<>>, exp |-> [k |-> "val", v |-> VecV(SortInts(<<IntV(3), IntV(1), IntV(2), IntV(1), IntV(-5)>>))]] }
\* @U2@ / @U4@ stand for a 2-byte and a 4-byte character (the specification sources stay ASCII; the harness substitutes)
\* join / concat: the pieces in order, the separator between every two neighbours (also around empty pieces)
RECURSIVE JoinM(_, _)
JoinM(ps, sep) == IF ps = <<>> THEN <<>> ELSE IF Len(ps) = 1 THEN <<ps[1]>> ELSE <<ps[1], sep>> \o JoinM(Tail(ps), sep)
Pieces == << <<>>, <<"a">>, <<"", "a", "b">>, <<"a", "", "b">>, <<"a", "b", "">>, <<"", "">>, <<"", "", "a">>, <<"@U2@", "", "b">> >>
RECURSIVE PiecesTxt(_)
PiecesTxt(ps) == IF ps = <<>> THEN "" ELSE "\"" \o Head(ps) \o "\" " \o PiecesTxt(Tail(ps))
JoinCases ==
  { [w |-> "join", coll |-> "[ " \o PiecesTxt(Pieces[n]) \o "]", args |-> <<>>, sep |-> sp,
     exp |-> [k |-> "val", chars |-> JoinM(Pieces[n], sp)]] : n \in 1..Len(Pieces), sp \in {",", "", "--"} }
  \cup { [w |-> "concat", coll |-> "[ " \o PiecesTxt(Pieces[n]) \o "]", args |-> <<>>, sep |-> "",
          exp |-> [k |-> "val", chars |-> JoinM(Pieces[n], "")]] : n \in 1..Len(Pieces) }
Strs == << "", "a", "abc", "@U2@BCD", "a@U4@@U2@" >>
StrSeq(k) == CASE k = 1 -> <<>> [] k = 2 -> <<"a">> [] k = 3 -> <<"a", "b", "c">> [] k = 4 -> <<"@U2@", "B", "C", "D">> [] k = 5 -> <<"a", "@U4@", "@U2@">>
StrCases ==
  { [w |-> "sslice", coll |-> Strs[n], args |-> <<i, j>>,
     exp |-> [k |-> IF i \in {HUGE, -HUGE} \/ j \in {HUGE, -HUGE} THEN "valorerr" ELSE "val", chars |-> Slice(StrSeq(n), i, j)]] : n \in 1..5, i \in Idx, j \in Idx }
  \cup { [w |-> "slength", coll |-> Strs[n], args |-> <<>>, exp |-> [k |-> "val", v |-> IntV(Len(StrSeq(n)))]] : n \in 1..5 }
  \cup JoinCases
ExportSeq == Mode = "seq" => \A c \in SeqCases \cup StrCases : PrintT(<<"REPLAY", ToJson([mode |-> "seq"] @@ c)>>)
=============================================================================
