------------------------------- MODULE MC_C16P -------------------------------
(***************************************************************************)
(* C16, print/read: Print(v) is the literal syntax of integers, bit-strings  *)
(* and vectors/maps of those (the Debug rendering of cells, src/cell.rs).    *)
(* TLC enumerates the values and predicts the printed text; the harness      *)
(* checks that the real printer produces that text and that reading it back  *)
(* yields an equal value.                                                    *)
(***************************************************************************)
EXTENDS Values, Bits, Json

CONSTANT MaxBits
Hex == <<"0", "1", "2", "3", "4", "5", "6", "7", "8", "9", "A", "B", "C", "D", "E", "F">>
BitCh(b) == IF b = 1 THEN "x" ELSE "."
\* one group of up to 8 bits: a hex digit per complete nibble (from the left), the rest as x / . characters
RECURSIVE BitChars(_)
BitChars(g) == IF g = <<>> THEN <<>> ELSE <<BitCh(g[1])>> \o BitChars(Tail(g))
Group(g) == LET n == Len(g) IN
  IF n = 8 THEN <<Hex[ToNat(BTake(g, 4)) + 1], Hex[ToNat(BDrop(g, 4)) + 1]>>
  ELSE IF n > 4 THEN <<Hex[ToNat(BTake(g, 4)) + 1]>> \o BitChars(BDrop(g, 4))
  ELSE IF n = 4 THEN <<Hex[ToNat(g) + 1]>>
  ELSE BitChars(g)
RECURSIVE Groups(_, _)
Groups(b, first) == IF b = <<>> THEN <<>>
                    ELSE LET k == IF Len(b) >= 8 THEN 8 ELSE Len(b) IN
                         (IF first THEN <<>> ELSE <<" ">>) \o Group(BTake(b, k)) \o Groups(BDrop(b, k), FALSE)
PrintBits(b) == <<"|">> \o Groups(b, TRUE) \o <<"|">>

RECURSIVE PrintV(_)
RECURSIVE PrintVs(_, _)
PrintVs(xs, k) == IF k > Len(xs) THEN <<>> ELSE PrintV(xs[k]) \o <<" ">> \o PrintVs(xs, k + 1)
RECURSIVE PrintKV(_, _)
PrintKV(kv, k) == IF k > Len(kv) THEN <<>> ELSE PrintV(kv[k][2]) \o <<" ">> \o PrintV(kv[k][1]) \o <<" ">> \o PrintKV(kv, k + 1)
\* strings (beyond the property's list, which names integers and bit-strings): a string prints between double quotes
\* with `"` and `\` escaped by a backslash and newline / tab as \n / \t; everything else as it is (the apostrophe too)
RECURSIVE Cat(_)
Cat(cs) == IF cs = <<>> THEN "" ELSE Head(cs) \o Cat(Tail(cs))
Esc(ch) == CASE ch = "\"" -> "\\\"" [] ch = "\\" -> "\\\\" [] ch = "\n" -> "\\n" [] ch = "\t" -> "\\t" [] OTHER -> ch
StrChars == { <<>>, <<"a", " ", "b">>, <<"i", "t", "'", "s">>, <<"q", "\"", "q">>, <<"b", "\\", "s">>, <<"l", "\n", "m", "\t">>, <<"'">>, <<"\"", "'", "\\">> }
StrOf(cs) == [ty |-> "str", s |-> Cat(cs), cs |-> cs]
PrintV(c) == CASE c.ty = "int"  -> <<ToString(c.i)>>
               [] c.ty = "str"  -> <<"\"">> \o [k \in 1..Len(c.cs) |-> Esc(c.cs[k])] \o <<"\"">>
               [] c.ty = "bits" -> PrintBits(c.b)
               [] c.ty = "vec"  -> <<"[ ">> \o PrintVs(c.items, 1) \o <<"]">>
               [] c.ty = "map"  -> <<"{ ">> \o PrintKV(c.kv, 1) \o <<"}">>

AllBits == UNION {[1..n -> {0, 1}] : n \in 0..MaxBits}
Ints == {0, 1, -1, 9, 10, -10, 255, 256, 65535, -65536, 1000000, 1073741823, -1073741823}
Atoms == {IntV(i) : i \in Ints} \cup {BitsV(<<>>), BitsV(<<1>>), BitsV(<<1,0,1,0>>), BitsV(<<1,1,1,1,0,0,0,0, 1,0,1>>)}
Small == {IntV(0), IntV(-7), BitsV(<<0,1,1>>)}
Values1 == {IntV(i) : i \in Ints} \cup {BitsV(b) : b \in AllBits}
Vectors == {VecV(<<>>)} \cup {VecV(<<a>>) : a \in Atoms} \cup {VecV(<<a, b>>) : a \in Small, b \in Atoms}
           \cup {VecV(<<VecV(<<a>>), b>>) : a \in Small, b \in Small} \cup {VecV(<<MapV(<<<<IntV(1), a>>>>)>>) : a \in Small}
Maps == {MapV(<<>>)} \cup {MapV(<<<<IntV(1), a>>>>) : a \in Atoms} \cup {MapV(<<<<IntV(1), a>>, <<IntV(2), VecV(<<b>>)>>>>) : a \in Small, b \in Small}

VARIABLES v, ready
Strings == {StrOf(cs) : cs \in StrChars} \cup {VecV(<<StrOf(cs), IntV(1)>>) : cs \in StrChars} \cup {MapV(<<<<IntV(1), StrOf(cs)>>>>) : cs \in StrChars}
Init == ready = FALSE /\ v \in Values1 \cup Vectors \cup Maps \cup Strings
Step == ~ready /\ ready' = TRUE /\ UNCHANGED v
Spec == Init /\ [][Step]_<<v, ready>>
Export == ready => PrintT(<<"REPLAY", ToJson([v |-> v, text |-> PrintV(v)])>>)
=============================================================================
