------------------------------- MODULE MC_C16 -------------------------------
(* C16: every text over the 22 character classes up to a length; progress, tiling and totality checked on the design; *)
(* one REPLAY line per text with the predicted token list.                                                           *)
EXTENDS Lexer, Json
CONSTANTS MaxLen, Alphabet
VARIABLES t
Init == t = <<>>
Next == Len(t) < MaxLen /\ \E c \in Alphabet : t' = Append(t, c)
Spec == Init /\ [][Next]_t
Props == Progress(t) /\ Tiling(t) /\ Total(t)
Export == PrintT(<<"REPLAY", ToJson([text |-> t, toks |-> LexAll(t, 1)])>>)
Full == Classes
\* a smaller alphabet that still separates every rule (used for the longer texts)
Core == {"sp", "nl", "d0", "d1", "hx", "b", "x", "dot", "mi", "dq", "bs", "bar", "lp", "rp", "al", "mb", "us"}
=============================================================================
