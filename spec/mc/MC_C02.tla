------------------------------- MODULE MC_C02 -------------------------------
(***************************************************************************)
(* C02 on the design: with recording on, every interleaving of forward and  *)
(* backward steps of every generated program keeps the machine state equal  *)
(* to the state recorded for that position during the first forward run.    *)
(* Because a run is deterministic the reachable set is linear in the        *)
(* program's length exactly when the property holds.                        *)
(*                                                                          *)
(* Interpretation (DESIGN 5.19): a forward step that fails is not a step;   *)
(* one backward step after a failed attempt must land on the state of the   *)
(* current position or of the previous one (the code undoes the partial     *)
(* effects; if there were none it undoes the previous instruction).  The    *)
(* instruction meter and stdout are not part of the reversible state.       *)
(***************************************************************************)
EXTENDS ProgGen

VARIABLES m,       \* the machine (meter projected away)
          p,       \* position in hist
          hist,    \* projected states of the first forward run
          phase    \* "gen" | "run" | "skip"
allvars == <<vars, m, p, hist, phase>>

MaxSteps == 60
Proj(v) == [ip |-> v.ctx.ip, ds |-> v.ds, rs |-> v.rs, ls |-> v.ls, ss |-> v.ss, heap |-> v.heap]
NoMeter(v) == [v EXCEPT !.meter = 0, !.errtok = 0, !.out = <<>>]   \* meter and stdout are not reversible state

RECURSIVE FwdStates(_, _)
FwdStates(v, fuel) == IF fuel = 0 \/ ~X!Running(v) THEN <<Proj(v)>>
                      ELSE LET w == X!Step(v) IN
                           IF X!Ok(w) THEN <<Proj(v)>> \o FwdStates(NoMeter(w), fuel - 1) ELSE <<Proj(v)>>

Compiled == X!Submit([X!Boot EXCEPT !.rec = TRUE], X!Label(toks, 1), "compile")

Init2 == Init /\ m = X!Boot /\ p = 0 /\ hist = <<>> /\ phase = "gen"

Start == /\ phase = "gen" /\ done
         /\ LET c == Compiled IN
            IF X!Ok(c) THEN /\ m' = NoMeter(c) /\ hist' = FwdStates(NoMeter(c), MaxSteps) /\ p' = 1 /\ phase' = "run"
                       ELSE /\ m' = X!Boot /\ hist' = <<>> /\ p' = 0 /\ phase' = "skip"
         /\ UNCHANGED vars

Fwd == /\ phase = "run" /\ X!Ok(m) /\ X!Running(m) /\ p < MaxSteps
       /\ m' = NoMeter(X!Step(m))
       /\ p' = IF X!Ok(m') THEN p + 1 ELSE p
       /\ UNCHANGED <<vars, hist, phase>>

Back == /\ phase = "run" /\ p > 1 /\ m.rlog # <<>>
        /\ m' = NoMeter(X!RNext(m))
        /\ p' = IF X!Ok(m) THEN p - 1
                ELSE IF Proj(m') = hist[p] THEN p ELSE p - 1          \* after a failed attempt
        /\ UNCHANGED <<vars, hist, phase>>

Next == (phase = "gen" /\ GenNext /\ UNCHANGED <<m, p, hist, phase>>) \/ Start \/ Fwd \/ Back
Spec == Init2 /\ [][Next]_allvars

\* wherever we are, the projected state is the one recorded for that position
Reversible == (phase = "run" /\ X!Ok(m)) => (p >= 1 /\ p <= Len(hist) /\ Proj(m) = hist[p])

\* one line per program for the harness: the source and the number of forward steps
Export == (phase = "gen" /\ done) => PrintT(<<"REPLAY", ToJson([src |-> SrcText])>>)
=============================================================================
