------------------------------- MODULE MC_C07 -------------------------------
(***************************************************************************)
(* C07: binary construction is the inverse of binary parsing.  A record is a *)
(* list of typed fields; Pack concatenates each field's wire bits            *)
(* (Bits.tla codec); parsing the packed string field by field with the same  *)
(* widths and byte orders returns the original values, consumes exactly the   *)
(* sum of the widths and leaves remain = 0.  Checked by TLC on the            *)
(* specification for all field lists up to a length (fields therefore start  *)
(* at every bit alignment) and exported for replay through the construction   *)
(* words (int!, >bitstr, emit) and the read words (int, uint, bits, bytes).   *)
(***************************************************************************)
EXTENDS Record, TLC, Json

CONSTANTS MaxFields, Stride

Widths == {1, 3, 8, 9, 16, 31, 33, 64, 127, 128}
Orders == {"big", "little"}
Distinct128 == Flatten([k \in 1..16 |-> FromNat(Mod(k * 17 + 1, 256), 8)])
Values(w) == { <<1>> \o Zeros(w - 1), [i \in 1..w |-> Mod(i, 2)], SubSeq(Distinct128, 129 - w, 128) }

IntFields == { [k |-> "int", w |-> w, signed |-> s, order |-> o, value |-> v] :
                  w \in Widths, s \in {0, 1}, o \in Orders, v \in UNION {Values(x) : x \in Widths} }
Bytes(bs) == Flatten([k \in 1..Len(bs) |-> FromNat(bs[k], 8)])
\* 1.5 and -2.25 as binary32 / binary64
FloatFields == { [k |-> "flt", w |-> Len(v), signed |-> 0, order |-> o, value |-> v] : o \in Orders,
                   v \in { Bytes(<<63, 192, 0, 0>>), Bytes(<<192, 16, 0, 0>>), Bytes(<<63, 248, 0, 0, 0, 0, 0, 0>>), Bytes(<<192, 2, 0, 0, 0, 0, 0, 0>>) } }
Field(f) == f.k # "int" \/ (Len(f.value) = f.w /\ (f.signed = 1 \/ f.w <= 127))
Fields == { f \in IntFields : Field(f) } \cup FloatFields
          \cup { [k |-> "raw", w |-> Len(b), signed |-> 0, order |-> "big", value |-> b] : b \in {<<1>>, <<1,0,1>>, <<0,1,1,1,0,0,1>>} }
          \cup { [k |-> "str", w |-> 16, signed |-> 0, order |-> "big", value |-> <<0,1,0,0,0,0,0,1, 0,1,1,1,1,0,1,0>>] }      \* "Az"
          \cup { [k |-> "bytes", w |-> 16, signed |-> 0, order |-> "big", value |-> <<0,0,0,0,0,0,0,1, 1,1,1,1,1,1,1,1>>] }    \* [ 1 255 ]

VARIABLES rec, n
vars == <<rec, n>>
Init == rec = <<>> /\ n = 0
Add == /\ Len(rec) < MaxFields
       /\ \E f \in Fields : rec' = Append(rec, f)
       /\ n' = n + 1
Spec == Init /\ [][Add]_vars

Inverse == /\ Len(Pack(rec)) = SumW(rec)
           /\ ParseOk(rec, Pack(rec), 0)

\* stable pseudo-sampling of the longer lists
Hash(fs) == SumW(fs) * 7 + Len(fs)
Export == (rec # <<>> /\ (Len(rec) < MaxFields \/ Stride = 1 \/ Mod(Hash(rec) + Len(Pack(rec)), Stride) = 0)) =>
            PrintT(<<"REPLAY", ToJson([fields |-> rec, packed |-> Pack(rec)])>>)
=============================================================================
