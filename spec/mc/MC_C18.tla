------------------------------- MODULE MC_C18 -------------------------------
(***************************************************************************)
(* C18: the input matrix for the text encodings.  Byte strings: all of       *)
(* length 0..3 over {00, FF, 41, 80} and one pattern per length 4..12, each  *)
(* presented at every bit alignment 0..7 inside a parent bit-string (the     *)
(* copying path) and as bit-string / byte list / nested vector / string      *)
(* argument; inputs that >bitstr rejects or that are not whole bytes; texts  *)
(* that are invalid in every alphabet.                                       *)
(***************************************************************************)
EXTENDS Naturals, Sequences, TLC, Json

Bytes == {0, 255, 65, 128}
Short == UNION {[1..n -> Bytes] : n \in 0..3}
Pattern(n) == [i \in 1..n |-> (i * 37 + n) % 256]
Long == {Pattern(n) : n \in 4..12}
Codecs == {"base32", "base32hex", "base64", "zero85"}
Forms == {"bits", "list", "nested"}

VARIABLES c, ready
Init == /\ ready = FALSE
        /\ \/ \E b \in Short \cup Long, a \in 0..7 : c = [kind |-> "bytes", bytes |-> b, align |-> a, form |-> "bits"]
           \* the same slice when its parent was computed at run time and is gone: the slice is the only owner of its buffer
           \/ \E b \in Short \cup Long, a \in 0..7 : c = [kind |-> "bytes", bytes |-> b, align |-> a, form |-> "ownbits"]
           \/ \E b \in Short \cup Long, f \in {"list", "nested"} : c = [kind |-> "bytes", bytes |-> b, align |-> 0, form |-> f]
           \/ \E n \in {1, 2} : c = [kind |-> "bytes", bytes |-> [i \in 1..n |-> 65], align |-> 0, form |-> "str"]
           \/ \E k \in {"oddbits", "bigint", "negint", "real", "nilarg", "map", "mixedvec"} : c = [kind |-> k, bytes |-> <<>>, align |-> 0, form |-> "bad"]
           \/ \E t \in {" ", "`", "~", "\t", "é", "A B", "AA~A", "=", "A"} : c = [kind |-> "text", bytes |-> <<>>, align |-> 0, form |-> t]
Step == ~ready /\ ready' = TRUE /\ UNCHANGED c
Spec == Init /\ [][Step]_<<c, ready>>
Export == ready => PrintT(<<"REPLAY", ToJson(c)>>)
=============================================================================
