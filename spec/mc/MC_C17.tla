------------------------------- MODULE MC_C17 -------------------------------
(***************************************************************************)
(* C17, which token is blamed.  Every generated program that fails (at run  *)
(* time anywhere: top level, inside called definitions, loops, branches; or  *)
(* at build time on an unknown word) has one ground-truth failing token: the *)
(* position at which the structural reference (Src.tla) stops.  TLC checks   *)
(* on the design that the debug map stays aligned with the bytecode through  *)
(* every emit and back-patch, i.e. that the token the design blames          *)
(* (debug map at the failing ip / last token fetched) is that token, and     *)
(* exports the failing token index for the harness.                          *)
(***************************************************************************)
EXTENDS ProgGen

Next == GenNext
Spec == Init /\ [][Next]_vars

Ltoks == X!Label(toks, 1)
Ref   == S!SEval(toks, 400)
Vm    == X!Submit([X!Boot EXCEPT !.ilim = 2000], Ltoks, "eval")

\* first unknown word (the generator's only build-time failure)
UnknownAt == LET c == {i \in 1..Len(toks) : toks[i].t = "w" /\ toks[i].s = "foo"} IN IF c = {} THEN 0 ELSE CHOOSE i \in c : \A j \in c : i <= j

FailTok == IF UnknownAt # 0 THEN UnknownAt
           ELSE IF Ref.skip \/ Ref.err \in {"none", "timeout"} THEN 0 ELSE Ref.pos
\* a two-token construct (`local x`, `var x`, `! x`) may be blamed through either of its tokens
FailToks == IF FailTok = 0 THEN {} ELSE IF toks[FailTok].t = "w" /\ toks[FailTok].s \in {"local", "var", "!"} THEN {FailTok, FailTok + 1} ELSE {FailTok}
Blamed  == IF X!Ok(Vm) THEN 0 ELSE Vm.errtok - 1000

\* every code cell's debug-map entry is the token that emitted it: checked through the observable consequence
Aligned == done => (FailTok # 0 => Blamed \in FailToks)

Export == (done /\ FailTok # 0) => PrintT(<<"REPLAY", ToJson([src |-> SrcText, failtoks |-> FailToks, blamed |-> Blamed,
                                                                  cls |-> IF UnknownAt # 0 THEN "Unknown" ELSE Ref.err])>>)
=============================================================================
