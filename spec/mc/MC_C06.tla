------------------------------- MODULE MC_C06 -------------------------------
(***************************************************************************)
(* C06: all sequences of parsing words up to a depth, over an alphabet that  *)
(* crosses every cursor word with in-range, boundary, out-of-range and HUGE  *)
(* arguments, unaligned sub-inputs and nested open/close.  Invariants and    *)
(* action properties are checked in every state / on every step; every       *)
(* maximal path is exported with the predicted observable state after each   *)
(* word.                                                                     *)
(***************************************************************************)
EXTENDS Cursor, Json

CONSTANTS MaxDepth, Setup

P1 == <<1,0,1,0, 0,0,0,0, 0,0,0,1>>                            \* 12 bits, not a byte multiple
P2 == <<0,1,0,0,0,0,0,1, 0,0,0,0,0,0,0,0, 0,1,0,0,0,0,1,0>>    \* "A" NUL "B"
P3 == <<1,1,0>>

\* a long input (160 bits, value 5) for the fields that are refused by their WIDTH: an unsigned field wider than 127 bits
\* and a signed one wider than 128 do not fit a cell, whatever their value
P4 == Zeros(152) \o <<0,0,0,0,0,1,0,1>>
WideAlphabet == {
   W("uint", "num", 128, <<>>), W("uint", "num", 129, <<>>), W("uint", "num", 136, <<>>), W("uint", "num", 160, <<>>), W("uint", "num", 161, <<>>),
   W("int", "num", 129, <<>>), W("int", "num", 136, <<>>), W("int", "num", 160, <<>>),
   W("bits", "num", 8, <<>>), W("bits", "num", 3, <<>>), W("drop", "plain", 0, <<>>), W("u8", "plain", 0, <<>>), W("seek", "num", 8, <<>>), W("seek", "num", 24, <<>>),
   W("remain", "plain", 0, <<>>), W("offset", "plain", 0, <<>>), W("big", "plain", 0, <<>>), W("little", "plain", 0, <<>>) }
Alphabet == IF Setup = 4 THEN WideAlphabet ELSE {
   W("openlit", "lit", 0, P1), W("openlit", "lit", 0, P2), W("openlit", "lit", 0, P3), W("openlit", "lit", 0, <<>>),
   W("open-bitstr", "plain", 0, <<>>), W("close-bitstr", "plain", 0, <<>>), W("drop", "plain", 0, <<>>),
   W("bits", "num", 0, <<>>), W("bits", "num", 1, <<>>), W("bits", "num", 3, <<>>), W("bits", "num", 8, <<>>),
   W("bits", "num", 9, <<>>), W("bits", "num", 13, <<>>), W("bits", "num", HUGE, <<>>),
   W("bytes", "num", 0, <<>>), W("bytes", "num", 1, <<>>), W("bytes", "num", 2, <<>>), W("bytes", "num", HUGE, <<>>),
   W("uint", "num", 0, <<>>), W("uint", "num", 3, <<>>), W("uint", "num", 8, <<>>), W("uint", "num", 9, <<>>), W("uint", "num", 12, <<>>),
   W("uint", "num", HUGE, <<>>),
   W("int", "num", 3, <<>>), W("int", "num", 8, <<>>), W("int", "num", 12, <<>>), W("int", "num", HUGE, <<>>),
   W("u8", "plain", 0, <<>>), W("i8", "plain", 0, <<>>), W("u16", "plain", 0, <<>>),
   W("float", "num", 8, <<>>), W("float", "num", 32, <<>>),
   W("seek", "num", 0, <<>>), W("seek", "num", 1, <<>>), W("seek", "num", 8, <<>>), W("seek", "num", 12, <<>>),
   W("seek", "num", 13, <<>>), W("seek", "num", 25, <<>>), W("seek", "num", HUGE, <<>>),
   W("remain", "plain", 0, <<>>), W("offset", "plain", 0, <<>>),
   W("magic", "pat", 0, <<1,0,1,0>>), W("magic", "pat", 0, <<0>>), W("magic", "pat", 0, <<>>), W("magic", "pat", 0, Rep(1, 16)),
   W("find", "pat", 0, <<0,1,0,0,0,0,0,1>>), W("find", "pat", 0, Zeros(8)), W("find", "pat", 0, <<1>>), W("find", "pat", 0, <<0,1,0,0,0,0,1,0>>),
   W("nulbytestr", "plain", 0, <<>>), W("cstr", "plain", 0, <<>>),
   W("big", "plain", 0, <<>>), W("little", "plain", 0, <<>>) }

Obs(x) == [err |-> x.err, off |-> x.off, remain |-> Remain(x), inp |-> x.inp.b, ds |-> x.ds]
VARIABLES c, path, prev
vars == <<c, path, prev>>
\* fixed prefixes that put the cursor into deeper situations before the exhaustive part starts
Setups == <<
  <<>>,
  \* an unaligned sub-input: bits [3, 19) of P2' opened, big-endian
  << W("big", "plain", 0, <<>>), W("openlit", "lit", 0, <<1,1,1>> \o P2), W("bits", "num", 3, <<>>), W("drop", "plain", 0, <<>>),
     W("bits", "num", 16, <<>>), W("open-bitstr", "plain", 0, <<>>) >>,
  \* two suspended inputs, the current one a 9-bit slice starting at bit 2, offset in the middle
  << W("openlit", "lit", 0, P2), W("bits", "num", 8, <<>>), W("drop", "plain", 0, <<>>), W("openlit", "lit", 0, P1),
     W("bits", "num", 2, <<>>), W("drop", "plain", 0, <<>>), W("bits", "num", 9, <<>>), W("open-bitstr", "plain", 0, <<>>),
     W("bits", "num", 4, <<>>), W("drop", "plain", 0, <<>>) >>,
  \* the long input
  << W("big", "plain", 0, <<>>), W("openlit", "lit", 0, P4) >> >>
RECURSIVE RunPrefix(_, _, _)
RunPrefix(x, ws, k) == IF k > Len(ws) THEN x ELSE RunPrefix(Apply(x, ws[k]), ws, k + 1)
RECURSIVE PrefixPath(_, _, _)
PrefixPath(x, ws, k) == IF k > Len(ws) THEN <<>>
                        ELSE <<[word |-> ws[k], obs |-> Obs(Apply(x, ws[k]))]>> \o PrefixPath(Apply(x, ws[k]), ws, k + 1)
Init == c = RunPrefix(Boot, Setups[Setup], 1) /\ path = PrefixPath(Boot, Setups[Setup], 1) /\ prev = c
Next == /\ Len(path) < MaxDepth + Len(Setups[Setup])
        /\ \E a \in Alphabet :
             /\ c' = Apply(c, a)
             /\ path' = Append(path, [word |-> a, obs |-> Obs(Apply(c, a))])
        /\ prev' = c
Spec == Init /\ [][Next]_vars

\* ---- C06 on the design
Inv == InRange(c) /\ Remain(c) = End(c) - c.off
\* a failing word leaves input, offset, stash and the stack below its arguments untouched
FailureIsClean == c.err # "none" =>
    /\ c.inp = prev.inp /\ c.off = prev.off /\ c.stash = prev.stash
    /\ Len(c.ds) <= Len(prev.ds) /\ c.ds = SubSeq(prev.ds, 1, Len(c.ds))
\* a successful read returned exactly the bits it moved over
LastWord == path[Len(path)].word
ReadIsExact == (path # <<>> /\ c.err = "none" /\ LastWord.w \in {"bits", "bytes", "magic", "nulbytestr"} /\ c.inp = prev.inp) =>
    LET v == c.ds[Len(c.ds)] IN
    /\ c.off = prev.off + Len(v.b)
    /\ v.b = BSub(prev.inp.b, prev.off - prev.inp.o, c.off - prev.inp.o)
\* close restores what the matching open pushed (LIFO)
CloseRestores == (path # <<>> /\ c.err = "none" /\ LastWord.w = "close-bitstr") =>
    /\ prev.stash # <<>> /\ c.inp = prev.stash[Len(prev.stash)].inp /\ c.off = prev.stash[Len(prev.stash)].off
    /\ c.stash = SubSeq(prev.stash, 1, Len(prev.stash) - 1)

Export == Len(path) = MaxDepth + Len(Setups[Setup]) => PrintT(<<"REPLAY", ToJson([path |-> path])>>)
=============================================================================
