------------------------------- MODULE MC_C11 -------------------------------
(***************************************************************************)
(* C11 on the design: a program containing a meta block  #( e #)  behaves   *)
(* exactly like the program with the block replaced by the literal values e  *)
(* leaves (last result first, the order the suite pins); the block cannot    *)
(* see the surrounding data stack nor any variable; after it closes only     *)
(* the constants it defined remain; compiling a source leaves the visible    *)
(* stack and every existing variable unchanged; eval = compile then run.     *)
(* Scenarios: constant expression e  x  position of the block  x  prior      *)
(* stack/variables.                                                          *)
(***************************************************************************)
EXTENDS Values, TLC, Json

CONSTANTS Legacy
X == INSTANCE Xeh

LitVal == [x \in {"0", "1", "2", "3", "4", "5", "6", "7", "8", "9", "100", "200", "300"} |->
            CASE x = "100" -> 100 [] x = "200" -> 200 [] x = "300" -> 300 [] x = "0" -> 0 [] x = "1" -> 1 [] x = "2" -> 2 [] x = "3" -> 3 [] x = "4" -> 4
              [] x = "5" -> 5 [] x = "6" -> 6 [] x = "7" -> 7 [] x = "8" -> 8 [] x = "9" -> 9]
Tok(s) == IF s \in DOMAIN LitVal THEN X!TLit(IntV(LitVal[s]), 0) ELSE X!TWord(s, 0)
Toks(ss) == [i \in 1..Len(ss) |-> Tok(ss[i])]

\* constant expressions
E == << <<"3">>, <<"1", "2", "+">>, <<"1", "2">>, <<"1", "2", "swap">>, <<":", "k", "5", ";", "k", "k", "+">>,
        <<"[", "1", "2", "]">>, <<"#(", "4", "#)", "1", "+">>, <<"7", "const", "c", "c", "c", "*">>, <<"depth">>,
        <<"2", "0", "do", "I", "loop">>, <<"1", "true", "if", "2", "+", "then">>, <<>>,
        <<"[", "1", "#(", "2", "#)", "]">>, <<":", "k", "local", "x", "x", "x", ";", "3", "k">>,
        <<":", "a", "1", ";", ":", "b", "2", ";", "a", "b", "+">>,
        <<":", "a", "1", ";", "8", "const", "c", ":", "b", "2", ";", ":", "d", "3", ";", "a", "b", "d", "c", "+", "+", "+">>,
        <<":", "k", "#(", "2", "3", "+", "#)", ";", "k", "k", "*">>,        \* a block inside a definition inside the block
        <<"x", "1", "+">>,
        <<"9", "#(", "4", "#)", "-">>,                                        \* a nested block with a value of the outer block below it                                                   \* x: a constant of an earlier block (a local of the enclosing word has the same name)
        <<"dup">>, <<"drop">>, <<"v">>, <<"5", "var", "w">>, <<"1", "0", "/">>, <<"9", "!", "v">>, <<"nil">>, <<"true">> >>
\* positions: prefix / suffix around the block
Pos == << [pre |-> <<"9">>, suf |-> <<>>],
          [pre |-> <<"[", "8">>, suf |-> <<"]">>],
          [pre |-> <<":", "f", "6">>, suf |-> <<";", "f", "f">>],
          [pre |-> <<"#(", "1">>, suf |-> <<"#)">>],
          [pre |-> <<"true", "if">>, suf |-> <<"then", "4">>],
          [pre |-> <<"2", "0", "do">>, suf |-> <<"loop">>],
          [pre |-> <<>>, suf |-> <<"const", "zz">>],
          [pre |-> <<"1", "case", "1", "of">>, suf |-> <<"endof", "endcase">>],
          [pre |-> <<":", "f", "5", "local", "x">>, suf |-> <<"x", "+", ";", "f">>] >>      \* inside a word that has a local
\* what was submitted before: a stack and a variable the block must not see
Prior == << <<>>, <<"100", "200">>, <<"5", "var", "v">>, <<"5", "var", "v", "300">>, <<"#(", "3", "const", "x", "#)", "100">> >>
Styles == {"eval", "repl"}

VARIABLES sc, ready
vars == <<sc, ready>>
Init == sc \in [e : 1..Len(E), p : 1..Len(Pos), h : 1..Len(Prior), style : Styles] /\ ready = FALSE
Step == ~ready /\ ready' = TRUE /\ UNCHANGED sc
Spec == Init /\ [][Step]_vars

Boot == [X!Boot EXCEPT !.ilim = 400]
Do(m, ss, style) ==
  IF style = "eval" THEN X!Submit(m, X!Label(Toks(ss), m.srcs + 1), "eval")
  ELSE LET c == X!Submit(m, X!Label(Toks(ss), m.srcs + 1), "compile") IN IF X!Ok(c) THEN X!RunApi(c) ELSE c
Obs(m) == [err |-> m.err, vis |-> X!Visible(m), out |-> m.out, heap |-> m.heap]

\* the values e leaves, computed by evaluating e alone after the same prior history
RECURSIVE LitToks(_)
RECURSIVE ItemToks(_, _)
ItemToks(xs, k) == IF k > Len(xs) THEN <<>> ELSE LitToks(xs[k]) \o ItemToks(xs, k + 1)
LitToks(c) == CASE c.ty = "int"  -> <<X!TLit(c, 0)>>
                [] c.ty = "nil"  -> <<X!TWord("nil", 0)>>
                [] c.ty = "flag" -> <<X!TWord(IF c.b = 1 THEN "true" ELSE "false", 0)>>
                [] c.ty = "vec"  -> <<X!TWord("[", 0)>> \o ItemToks(c.items, 1) \o <<X!TWord("]", 0)>>
RECURSIVE RevLits(_, _)
RevLits(vals, k) == IF k = 0 THEN <<>> ELSE LitToks(vals[k]) \o RevLits(vals, k - 1)
TokText(t) == IF t.t = "w" THEN t.s ELSE ToString(t.v.i)
Texts(ts) == [i \in 1..Len(ts) |-> TokText(ts[i])]

Case(s) ==
  LET h0     == Do(Boot, Prior[s.h], s.style)
      alone  == X!Submit(h0, X!Label(Toks(<<"#(">> \o E[s.e] \o <<"#)">>), h0.srcs + 1), "eval")   \* e in a sealed block of its own, after the same history
      vals   == SubSeq(X!Visible(alone), Len(X!Visible(h0)) + 1, Len(X!Visible(alone)))   \* already re-emitted and run: order = what the block leaves
      withT  == Toks(Pos[s.p].pre \o <<"#(">> \o E[s.e] \o <<"#)">> \o Pos[s.p].suf)
      inlT   == Toks(Pos[s.p].pre) \o ItemToks(vals, 1) \o Toks(Pos[s.p].suf)
      w      == IF s.style = "eval" THEN X!Submit(h0, X!Label(withT, h0.srcs + 1), "eval")
                ELSE LET c == X!Submit(h0, X!Label(withT, h0.srcs + 1), "compile") IN IF X!Ok(c) THEN X!RunApi(c) ELSE c
      i      == IF s.style = "eval" THEN X!Submit(h0, X!Label(inlT, h0.srcs + 1), "eval")
                ELSE LET c == X!Submit(h0, X!Label(inlT, h0.srcs + 1), "compile") IN IF X!Ok(c) THEN X!RunApi(c) ELSE c
      comp   == X!Submit(h0, X!Label(withT, h0.srcs + 1), "compile")
      eOk    == X!Ok(alone)
      newNames == {w.dict[k].name : k \in (Len(h0.dict) + 1)..Len(w.dict)}
      \* names defined by `: name` inside the expression
      defsIn == {E[s.e][k + 1] : k \in {j \in 1..(Len(E[s.e]) - 1) : E[s.e][j] = ":"}}
      nonConst == {k \in (Len(h0.dict) + 1)..Len(w.dict) : w.dict[k].k # "const" /\ w.dict[k].name \in defsIn \cup {"w"}}
      \* inside another meta block the stack is shared (same mode; pinned by test_meta_stack) and
      \* several values are not reversed: only single-valued, stack-insensitive blocks are judged there
      skip   == s.p = 4 /\ (~eOk \/ Len(vals) # 1 \/ E[s.e] \in {<<"depth">>, <<"dup">>, <<"drop">>}
                              \/ ((\E k \in 1..Len(E[s.e]) : E[s.e][k] = "#(") /\ (\E k \in 1..Len(E[s.e]) : E[s.e][k] = ":")))   \* a block in a definition in e is compiled against the shared stack
  IN [ skip |-> IF skip THEN 1 ELSE 0, prior |-> Prior[s.h], with |-> Texts(withT), inl |-> Texts(inlT), style |-> s.style, eok |-> IF eOk THEN 1 ELSE 0,
       werr |-> w.err, wvis |-> X!Visible(w), wout |-> w.out,
       agree |-> (IF ~X!Ok(h0) \/ skip THEN TRUE
                  ELSE IF eOk THEN /\ Obs(w) = Obs(i)                                   \* equivalent to inlining
                                   /\ nonConst = {}                                      \* only constants survive the block
                                   /\ (X!Ok(comp) => X!Visible(comp) = X!Visible(h0) /\ SubSeq(comp.heap, 1, Len(h0.heap)) = h0.heap)
                  ELSE ~X!Ok(w) /\ X!Visible(w) = X!Visible(h0) /\ w.heap = h0.heap),   \* a failing block rejects the source, sealed
       consts |-> {w.dict[k].name : k \in {j \in (Len(h0.dict) + 1)..Len(w.dict) : w.dict[j].k = "const"}} ]

Agree == ready => Case(sc).agree
Export == ready => PrintT(<<"REPLAY", ToJson(Case(sc))>>)
=============================================================================
