------------------------------- MODULE MC_C09 -------------------------------
(***************************************************************************)
(* C09.  Mode "law": at small widths, for ALL operand pairs, the bit-level  *)
(* operators of Arith.tla agree with mathematical integer arithmetic.        *)
(* Mode "case": at W = 128 the same operators produce the expected result of *)
(* every word on a boundary family of operands; one REPLAY line per case.    *)
(***************************************************************************)
EXTENDS Arith, TLC, Json

CONSTANTS Mode, W, Full

Abs(n) == IF n < 0 THEN -n ELSE n
Sgn(n) == IF n < 0 THEN -1 ELSE 1
TDiv(a, b) == Sgn(a) * Sgn(b) * (Abs(a) \div Abs(b))
\* (operators, not constants: TLC evaluates constant definitions eagerly, and 2^127 is not a TLC integer)
Lo(w) == -Pow2(w - 1)
Hi(w) == Pow2(w - 1) - 1
Fits(v) == v >= Lo(W) /\ v <= Hi(W)
Wrap(v) == LET m == Pow2(W)  r == v % m IN IF r > Hi(W) THEN r - m ELSE r

\* ---------------------------------------------------------------- law mode
LawPair(x, y) ==
  LET a == FromInt(x, W)  b == FromInt(y, W) IN
  /\ ToInt(a) = x
  /\ ToInt(AddB(a, b)) = Wrap(x + y) /\ (AddOverflows(a, b) <=> ~Fits(x + y))
  /\ ToInt(SubB(a, b)) = Wrap(x - y) /\ (SubOverflows(a, b) <=> ~Fits(x - y))
  /\ ToInt(MulB(a, b)) = Wrap(x * y) /\ (MulOverflows(a, b) <=> ~Fits(x * y))
  /\ ToInt(NegB(a)) = Wrap(-x) /\ (NegOverflows(a) <=> ~Fits(-x))
  /\ ToInt(AbsB(a)) = Wrap(Abs(x))
  /\ (y # 0 => /\ ToInt(DivB(a, b)) = Wrap(TDiv(x, y)) /\ (DivOverflows(a, b) <=> ~Fits(TDiv(x, y)))
               /\ ToInt(RemB(a, b)) = x - y * TDiv(x, y))
  /\ (LtS(a, b) <=> x < y)
  /\ ToInt(MinS(a, b)) = (IF x < y THEN x ELSE y) /\ ToInt(MaxS(a, b)) = (IF x < y THEN y ELSE x)
  /\ \A k \in 0..(W - 1) : /\ ToInt(ShlB(a, k)) = Wrap(x * Pow2(k))
                           /\ ToInt(SarB(a, k)) = (IF x >= 0 THEN x \div Pow2(k) ELSE -((-x + Pow2(k) - 1) \div Pow2(k)))   \* floor
  /\ PopCount(a) = PopCount(FromNat(IF x < 0 THEN x + Pow2(W) ELSE x, W))

\* ---------------------------------------------------------------- case mode (W = 128)
P(k)  == Zeros(W - 1 - k) \o <<1>> \o Zeros(k)                 \* 2^k
FamilyFull == { ZeroB(W), OneB(W), NegB(OneB(W)), P(1), NegB(P(1)),
            <<1>> \o Zeros(W - 1), <<1>> \o Zeros(W - 2) \o <<1>>,        \* MIN, MIN+1
            <<0>> \o Rep(1, W - 1), <<0>> \o Rep(1, W - 2) \o <<0>>,      \* MAX, MAX-1
            P(31), P(32), P(63), P(64), NegB(P(64)), SubB(P(64), OneB(W)), AddB(P(64), OneB(W)),
            P(W - 2), SubB(P(W - 2), OneB(W)), NegB(P(63)),
            FromNat(12345, W), NegB(FromNat(7, W)), FromNat(3, W) }
FamilySmall == { ZeroB(W), OneB(W), NegB(OneB(W)), <<1>> \o Zeros(W - 1), <<0>> \o Rep(1, W - 1), P(64), NegB(P(63)),
                 SubB(P(64), OneB(W)), P(W - 2), FromNat(12345, W), NegB(FromNat(7, W)), FromNat(3, W) }
Family == IF Full THEN FamilyFull ELSE FamilySmall
BinOps == {"+", "-", "*", "/", "rem", "min", "max", "<", "<=", ">", ">=", "==", "<>", "band", "bor", "bxor"}
UnOps  == {"neg", "abs", "bnot", "popcnt", "zero?", "positive?", "negative?"}
Shifts == {0, 1, 7, 63, 64, 65, 126, 127}

Flag(p) == IF p THEN "true" ELSE "false"
\* expected outcome: [k |-> "int", bits] | [k |-> "flag", f] | [k |-> "small", n] | [k |-> "err", cls] ; alt = acceptable alternative
Bin(op, a, b) ==
  CASE op = "+"   -> [k |-> "int", v |-> AddB(a, b), ovf |-> AddOverflows(a, b)]
    [] op = "-"   -> [k |-> "int", v |-> SubB(a, b), ovf |-> SubOverflows(a, b)]
    [] op = "*"   -> [k |-> "int", v |-> MulB(a, b), ovf |-> MulOverflows(a, b)]
    [] op = "/"   -> IF IsZero(b) THEN [k |-> "err", cls |-> "DivZero"] ELSE [k |-> "int", v |-> DivB(a, b), ovf |-> DivOverflows(a, b)]
    [] op = "rem" -> IF IsZero(b) THEN [k |-> "err", cls |-> "DivZero"] ELSE [k |-> "int", v |-> RemB(a, b), ovf |-> FALSE]
    [] op = "min" -> [k |-> "int", v |-> MinS(a, b), ovf |-> FALSE]
    [] op = "max" -> [k |-> "int", v |-> MaxS(a, b), ovf |-> FALSE]
    [] op = "<"   -> [k |-> "flag", f |-> Flag(LtS(a, b))]
    [] op = "<="  -> [k |-> "flag", f |-> Flag(~LtS(b, a))]
    [] op = ">"   -> [k |-> "flag", f |-> Flag(LtS(b, a))]
    [] op = ">="  -> [k |-> "flag", f |-> Flag(~LtS(a, b))]
    [] op = "=="  -> [k |-> "flag", f |-> Flag(a = b)]
    [] op = "<>"  -> [k |-> "flag", f |-> Flag(a # b)]
    [] op = "band" -> [k |-> "int", v |-> AndB(a, b), ovf |-> FALSE]
    [] op = "bor"  -> [k |-> "int", v |-> OrB(a, b), ovf |-> FALSE]
    [] op = "bxor" -> [k |-> "int", v |-> XorB(a, b), ovf |-> FALSE]
Un(op, a) ==
  CASE op = "neg"  -> [k |-> "int", v |-> NegB(a), ovf |-> NegOverflows(a)]
    [] op = "abs"  -> [k |-> "int", v |-> AbsB(a), ovf |-> IsMin(a)]
    [] op = "bnot" -> [k |-> "int", v |-> NotB(a), ovf |-> FALSE]
    [] op = "popcnt" -> [k |-> "small", n |-> PopCount(a)]
    [] op = "zero?" -> [k |-> "flag", f |-> Flag(IsZero(a))]
    [] op = "positive?" -> [k |-> "flag", f |-> Flag(Sign(a) = 0 /\ ~IsZero(a))]
    [] op = "negative?" -> [k |-> "flag", f |-> Flag(Sign(a) = 1)]

\* ---------------------------------------------------------------- doubles: a small exact model
\* a double is zero | inf(sign) | nan | fin(m, e) = m * 2^e with |m| < 2^15 (exactly representable).  On this domain the
\* results below are exactly representable, and IEEE-754 prescribes the exact result whenever it is representable.
Fin(m, e) == [c |-> "fin", m |-> m, e |-> e]
RZero == [c |-> "fin", m |-> 0, e |-> 0]
Inf(sg) == [c |-> "inf", m |-> sg, e |-> 0]
NaN == [c |-> "nan", m |-> 0, e |-> 0]
RECURSIVE Norm(_)
Norm(x) == IF x.c # "fin" THEN x ELSE IF x.m = 0 THEN RZero ELSE IF x.m % 2 = 0 THEN Norm(Fin(x.m \div 2, x.e + 1)) ELSE x
P2(k) == Pow2(k)
\* common exponent
Al(x, y) == LET e == IF x.e < y.e THEN x.e ELSE y.e IN <<x.m * P2(x.e - e), y.m * P2(y.e - e), e>>
RSgn(x) == IF x.c = "inf" THEN x.m ELSE IF x.m < 0 THEN -1 ELSE IF x.m > 0 THEN 1 ELSE 0
RAdd(x, y) == IF x.c = "nan" \/ y.c = "nan" THEN NaN
              ELSE IF x.c = "inf" /\ y.c = "inf" THEN (IF x.m = y.m THEN x ELSE NaN)
              ELSE IF x.c = "inf" THEN x ELSE IF y.c = "inf" THEN y
              ELSE IF x.m = 0 THEN y ELSE IF y.m = 0 THEN x
              ELSE LET a == Al(x, y) IN Norm(Fin(a[1] + a[2], a[3]))
RNeg(x) == IF x.c = "nan" THEN NaN ELSE [x EXCEPT !.m = -x.m]
RMul(x, y) == IF x.c = "nan" \/ y.c = "nan" THEN NaN
              ELSE IF x.c = "inf" \/ y.c = "inf" THEN (IF RSgn(x) = 0 \/ RSgn(y) = 0 THEN NaN ELSE Inf(RSgn(x) * RSgn(y)))
              ELSE Norm(Fin(x.m * y.m, x.e + y.e))
\* exponents far apart (TLC integers are 32 bits wide): with |m| < 2^15, an exponent more than 20 higher means a larger magnitude
Far(x, y) == x.c = "fin" /\ y.c = "fin" /\ x.m # 0 /\ y.m # 0 /\ (x.e - y.e > 20 \/ y.e - x.e > 20)
RLt(x, y) == IF x.c = "inf" THEN (x.m < 0 /\ ~(y.c = "inf" /\ y.m < 0))
             ELSE IF y.c = "inf" THEN y.m > 0
             ELSE IF x.m = 0 THEN y.m > 0 ELSE IF y.m = 0 THEN x.m < 0
             ELSE IF (x.m < 0) # (y.m < 0) THEN x.m < 0
             ELSE IF Far(x, y) THEN (IF x.m > 0 THEN x.e < y.e ELSE x.e > y.e)
             ELSE LET a == Al(x, y) IN a[1] < a[2]
\* truncation toward zero of a finite value
RTrunc(x) == IF x.e >= 0 THEN x.m * P2(x.e) ELSE IF x.e < -20 THEN 0 ELSE Sgn(x.m) * (Abs(x.m) \div P2(-x.e))      \* |m| < 2^15
\* the negative zero: equal to zero in every comparison, a zero divisor, and it behaves as zero in all the results judged
\* here (the sign of a zero result is not judged)
NZero == [c |-> "nzero", m |-> 0, e |-> 0]
Z(x) == IF x.c = "nzero" THEN RZero ELSE x
Reals == { RZero, NZero, Fin(1, 0), Fin(-1, 0), Fin(5, -1), Fin(-5, -1), Fin(1, -1), Fin(-3, -1), Fin(3, -2), Fin(7, 3), Fin(-3, 1), Fin(1, -10), Fin(12345, 0), Inf(1), Inf(-1), NaN,
           Fin(1, 63), Fin(-1, 63), Fin(1, 64), Fin(3, 100), Fin(-5, 120),             \* beyond the 64-bit range, inside the 128-bit one
           Fin(1, -60), Fin(-1, -60), Fin(3, -200) }                                  \* tiny but not zero
RealBinOps == {"+", "-", "*", "/", "min", "max", "<", "<=", ">", ">=", "==", "<>"}
RealUnOps == {"neg", "abs", "zero?", "positive?", "negative?", ">int", "round"}
RealBin(op, x0, y0) ==
  LET x == Z(x0)  y == Z(y0) IN
  CASE op = "+" -> IF Far(x, y) THEN [k |-> "skip"] ELSE [k |-> "real", r |-> RAdd(x, y)]          \* inexact: rounding is not modelled
    [] op = "-" -> IF Far(x, y) THEN [k |-> "skip"] ELSE [k |-> "real", r |-> RAdd(x, RNeg(y))]
    [] op = "*" -> [k |-> "real", r |-> RMul(x, y)]
    [] op = "/" -> IF y.c = "fin" /\ y.m = 0 THEN [k |-> "err", cls |-> "DivZero"]
                   ELSE IF x.c = "nan" \/ y.c = "nan" THEN [k |-> "real", r |-> NaN]
                   ELSE IF x.c = "inf" THEN (IF y.c = "inf" THEN [k |-> "real", r |-> NaN] ELSE [k |-> "real", r |-> Inf(x.m * RSgn(y))])
                   ELSE IF y.c = "inf" THEN [k |-> "real", r |-> RZero]
                   ELSE IF Abs(x.m) % Abs(y.m) = 0 THEN [k |-> "real", r |-> Norm(Fin(Sgn(x.m) * Sgn(y.m) * (Abs(x.m) \div Abs(y.m)), x.e - y.e))] ELSE [k |-> "skip"]   \* inexact: rounding is not modelled
    [] op \in {"min", "max", "<", "<=", ">", ">=", "==", "<>"} ->
         IF x.c = "nan" \/ y.c = "nan" THEN [k |-> "skip"]                                      \* unordered: left unspecified by the property
         ELSE CASE op = "min" -> [k |-> "real", r |-> IF RLt(y, x) THEN y ELSE x]
                [] op = "max" -> [k |-> "real", r |-> IF RLt(x, y) THEN y ELSE x]
                [] op = "<"  -> [k |-> "flag", f |-> Flag(RLt(x, y))]
                [] op = "<=" -> [k |-> "flag", f |-> Flag(~RLt(y, x))]
                [] op = ">"  -> [k |-> "flag", f |-> Flag(RLt(y, x))]
                [] op = ">=" -> [k |-> "flag", f |-> Flag(~RLt(x, y))]
                [] op = "==" -> [k |-> "flag", f |-> Flag(~RLt(x, y) /\ ~RLt(y, x))]
                [] op = "<>" -> [k |-> "flag", f |-> Flag(RLt(x, y) \/ RLt(y, x))]
RealUn(op, x0) ==
  LET x == Z(x0) IN
  CASE op = "neg" -> [k |-> "real", r |-> RNeg(x)]
    [] op = "abs" -> [k |-> "real", r |-> IF x.c = "nan" THEN NaN ELSE [x EXCEPT !.m = Abs(x.m)]]
    [] op = "zero?" -> IF x.c = "nan" THEN [k |-> "skip"] ELSE [k |-> "flag", f |-> Flag(x.c = "fin" /\ x.m = 0)]
    [] op = "positive?" -> IF x.c = "nan" THEN [k |-> "skip"] ELSE [k |-> "flag", f |-> Flag(RSgn(x) > 0)]
    [] op = "negative?" -> IF x.c = "nan" THEN [k |-> "skip"] ELSE [k |-> "flag", f |-> Flag(RSgn(x) < 0)]
    [] op = ">int" -> IF x.c # "fin" THEN [k |-> "skip"]                                                \* outside the i128 range: not covered by the property
                      ELSE IF x.e <= 0 THEN [k |-> "small", n |-> RTrunc(x)]
                      ELSE [k |-> "int", v |-> (LET mag == ShlB(FromNat(Abs(x.m), 128), x.e) IN IF x.m < 0 THEN NegB(mag) ELSE mag), ovf |-> FALSE]             \* m * 2^e as a 128-bit pattern (|m| < 2^15, e <= 120)
    [] op = "round" -> IF x.c # "fin" THEN [k |-> "real", r |-> x]
                       ELSE IF x.e >= 0 THEN [k |-> "real", r |-> x]
                       ELSE IF x.e < -20 THEN [k |-> "real", r |-> RZero]                                \* |x| < 2^-5
                       ELSE LET twice == (Abs(x.m) % P2(-x.e)) * 2 IN
                            IF twice = P2(-x.e) THEN [k |-> "real", r |-> Norm(Fin(Sgn(x.m) * ((Abs(x.m) \div P2(-x.e)) + 1), 0))]   \* a tie goes away from zero (the convention of `round` in the implementation language; recorded as an assumption)
                            ELSE [k |-> "real", r |-> Norm(Fin(Sgn(x.m) * ((Abs(x.m) \div P2(-x.e)) + (IF twice > P2(-x.e) THEN 1 ELSE 0)), 0))]

\* ---------------------------------------------------------------- operand types: who is blamed
Types == {"int", "real", "str", "nil", "flag", "vec", "tint", "zint", "zreal", "tzint"}   \* tint = an int carrying tags; z.. = zero (tz: tagged)
Num(t) == IF t \in {"tint", "zint", "tzint"} THEN "int" ELSE IF t = "zreal" THEN "real" ELSE t
IsZeroT(t) == t \in {"zint", "zreal", "tzint"}
\* dispatch on the right operand (arith.rs); the error reports one of the actual operands
\* the operand types are checked first; only a well-typed pair can be a division by zero
TypeBin(op, ta, tb) ==
  IF op \in {"/", "rem"} /\ IsZeroT(tb) /\ Num(ta) = Num(tb) /\ Num(ta) \in {"int", "real"} /\ ~(op = "rem" /\ Num(tb) = "real") THEN "DivZero"
  ELSE IF op = "rem" /\ Num(tb) = "real" /\ Num(ta) = "real" THEN "skip"                 \* remainder of reals: not in the property's list
  ELSE IF op \in {"band", "bor", "bxor", "bsl", "bsr"} THEN (IF Num(tb) # "int" THEN "Type" ELSE IF Num(ta) # "int" THEN "Type" ELSE "ok")
  ELSE IF Num(tb) = "int" THEN (IF Num(ta) = "int" THEN "ok" ELSE "Type")
  ELSE IF Num(tb) = "real" THEN (IF Num(ta) = "real" THEN "ok" ELSE "Type") ELSE "Type"
TypeUn(op, ta) ==
  IF op \in {"bnot", "popcnt"} THEN (IF Num(ta) = "int" THEN "ok" ELSE "Type")
  ELSE IF op = "round" THEN (IF Num(ta) = "real" THEN "ok" ELSE "Type")
  ELSE IF Num(ta) \in {"int", "real"} THEN "ok" ELSE "Type"
AllBin == BinOps \cup {"bsl", "bsr"}
AllUn == UnOps \cup {">int", ">real", "round"}

VARIABLES c, ready
vars == <<c, ready>>
Init == /\ ready = FALSE
        /\ IF Mode = "law" THEN c \in [x : Lo(W)..Hi(W), y : Lo(W)..Hi(W)]
           ELSE IF Mode = "real" THEN
                \/ \E op \in RealBinOps, x \in Reals, y \in Reals : c = [kind |-> "rbin", op |-> op, a |-> x, b |-> y]
                \/ \E op \in RealUnOps, x \in Reals : c = [kind |-> "run", op |-> op, a |-> x, b |-> RZero]
           ELSE IF Mode = "types" THEN
                \/ \E op \in AllBin, ta \in Types, tb \in Types : c = [kind |-> "tbin", op |-> op, a |-> ta, b |-> tb]
                \/ \E op \in AllUn, ta \in Types : c = [kind |-> "tun", op |-> op, a |-> ta, b |-> ""]
           ELSE \/ \E op \in BinOps, a \in Family, b \in Family : c = [kind |-> "bin", op |-> op, a |-> a, b |-> b]
                \/ \E op \in UnOps, a \in Family : c = [kind |-> "un", op |-> op, a |-> a, b |-> <<>>]
                \/ \E op \in {"bsl", "bsr"}, a \in Family, s \in Shifts : c = [kind |-> "shift", op |-> op, a |-> a, b |-> FromNat(s, W)]
Step == ~ready /\ ready' = TRUE /\ UNCHANGED c
Spec == Init /\ [][Step]_vars

Laws == Mode = "law" => LawPair(c.x, c.y)
Expected == CASE c.kind = "bin" -> Bin(c.op, c.a, c.b)
              [] c.kind = "un" -> Un(c.op, c.a)
              [] c.kind = "rbin" -> RealBin(c.op, c.a, c.b)
              [] c.kind = "run" -> RealUn(c.op, c.a)
              [] c.kind = "tbin" -> [k |-> "type", cls |-> TypeBin(c.op, c.a, c.b)]
              [] c.kind = "tun" -> [k |-> "type", cls |-> TypeUn(c.op, c.a)]
              [] c.kind = "shift" -> [k |-> "int", v |-> IF c.op = "bsl" THEN ShlB(c.a, ToNat(c.b)) ELSE SarB(c.a, ToNat(c.b)), ovf |-> FALSE]
Export == (ready /\ Mode # "law") => PrintT(<<"REPLAY", ToJson([kind |-> c.kind, op |-> c.op, a |-> c.a, b |-> c.b, exp |-> Expected])>>)
=============================================================================
