------------------------------ MODULE MC_C16R ------------------------------
(***************************************************************************)
(* C16, numerals at the edge of the integer range.  An integer literal      *)
(* denotes its mathematical value or is rejected: a cell holds a 128-bit     *)
(* two's-complement integer, so a numeral is accepted exactly when           *)
(*        -2^127 <= (-1)^sign * magnitude <= 2^127 - 1.                      *)
(* Magnitudes are bit patterns (MSB first, no leading zero) around 2^63,     *)
(* 2^64, 2^127 and 2^128; each is spelled in every radix notation (binary    *)
(* 0b, decimal, hexadecimal 0x, leading-zero hexadecimal), with every sign   *)
(* spelling, with and without `_` separators and leading zeros.  The harness *)
(* renders the digits (long division for the decimal spelling) and feeds the *)
(* text to the real lexer.                                                   *)
(***************************************************************************)
EXTENDS Bits, TLC, Json

One(n)  == <<1>> \o Zeros(n)                     \* 2^n
OnesN(n) == [i \in 1..n |-> 1]                   \* 2^n - 1
Mags == { OnesN(63), One(63), OnesN(64), One(64), One(64) \o <<>>,            \* 2^63-1, 2^63, 2^64-1, 2^64
          OnesN(127), One(127), SubSeq(One(127), 1, 127) \o <<1>>,             \* 2^127-1, 2^127, 2^127+1
          OnesN(128), One(128), SubSeq(OnesN(127), 1, 126) \o <<0>>,          \* 2^128-1, 2^128, 2^127-2
          <<1, 0, 1>> \o Zeros(124), One(126), One(130) }
Radix == {"bin", "dec", "hex", "lzhex"}
Signs == {"", "+", "-"}
Dress == {"plain", "us", "zeros"}          \* `_` between digits / leading zeros after the radix marker

\* accepted exactly when the value fits a 128-bit two's-complement integer
Fits(sign, m) == Len(m) <= 127 \/ (sign = "-" /\ m = One(127))

VARIABLE c
Init == c = <<>>
Next == c = <<>> /\ \E r \in Radix, s \in Signs, m \in Mags, d \in Dress : c' = <<r, s, m, d>>
Spec == Init /\ [][Next]_c
Export == c # <<>> => PrintT(<<"REPLAY", ToJson([radix |-> c[1], sign |-> c[2], mag |-> c[3], dress |-> c[4], accept |-> Fits(c[2], c[3])])>>)
=============================================================================
