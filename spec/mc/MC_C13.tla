------------------------------- MODULE MC_C13 -------------------------------
(***************************************************************************)
(* C13: the case matrix  word x subset of argument positions to tag x tag   *)
(* map x depth (the argument itself / an element inside a container          *)
(* argument), generated from Words.tla.  Each case is a twin: the same call  *)
(* on untagged and on tagged arguments.                                      *)
(***************************************************************************)
EXTENDS Words, TLC, Json

VARIABLES c, ready
vars == <<c, ready>>
Init == /\ ready = FALSE
        /\ \/ \E i \in 1..Len(Table), k \in 1..Len(TagMaps), depth \in {0, 1} :
                \E S \in (SUBSET (1..Len(Table[i].ins))) \ {{}} :
                  /\ (depth = 1 => \A p \in S : HasInner(Table[i].ins[p]))
                  /\ ~(k = 3 /\ Table[i].cls = "fmt")               \* the formatting tag is not applied to the words that honour it
                  /\ c = [i |-> i, k |-> k, depth |-> depth, S |-> S]
           \* a tagged value sent through a carrier (i = 0): depth = index of the carrier, S = {index of the type}
           \/ \E ci \in 1..Len(Carriers), ti \in 1..Len(CarryTypes), k \in 1..Len(TagMaps) :
                c = [i |-> 0, k |-> k, depth |-> ci, S |-> {ti}]
Step == ~ready /\ ready' = TRUE /\ UNCHANGED c
Spec == Init /\ [][Step]_vars

Arg(t, tagged) ==
  IF ~tagged THEN Sample(t)
  ELSE IF c.depth = 0 THEN Sample(t) \o " " \o TagMaps[c.k]
  ELSE InnerTagged(t, TagMaps[c.k])
Plain  == [p \in 1..Len(Table[c.i].ins) |-> Sample(Table[c.i].ins[p])]
Tagged == [p \in 1..Len(Table[c.i].ins) |-> Arg(Table[c.i].ins[p], p \in c.S)]
CarryValue == Sample(CarryTypes[CHOOSE t \in c.S : TRUE]) \o " " \o TagMaps[c.k]
ExportCarry == PrintT(<<"REPLAY", ToJson([w |-> "", cls |-> "keeps", plain |-> <<CarryValue>>,
                                          tagged |-> <<Carriers[c.depth][1], CarryValue, Carriers[c.depth][2]>>, k |-> c.k, depth |-> 0])>>)
Export == ready => IF c.i = 0 THEN ExportCarry ELSE PrintT(<<"REPLAY", ToJson([w |-> Table[c.i].w, cls |-> Table[c.i].cls, plain |-> Plain, tagged |-> Tagged,
                                                 k |-> c.k, depth |-> c.depth])>>)
=============================================================================
