------------------------------- MODULE MC_C13 -------------------------------
(***************************************************************************)
(* C13: the case matrix  word x subset of argument positions to tag x tag   *)
(* map x depth (the argument itself / an element inside a container          *)
(* argument), generated from Words.tla.  Each case is a twin: the same call  *)
(* on untagged and on tagged arguments.                                      *)
(***************************************************************************)
EXTENDS Words, TLC, Json

VARIABLES c, ready
vars == <<c, ready>>
Init == /\ ready = FALSE
        /\ \E i \in 1..Len(Table), k \in 1..Len(TagMaps), depth \in {0, 1} :
             \E S \in (SUBSET (1..Len(Table[i].ins))) \ {{}} :
               /\ (depth = 1 => \A p \in S : HasInner(Table[i].ins[p]))
               /\ ~(k = 3 /\ Table[i].cls = "fmt")               \* the formatting tag is not applied to the words that honour it
               /\ c = [i |-> i, k |-> k, depth |-> depth, S |-> S]
Step == ~ready /\ ready' = TRUE /\ UNCHANGED c
Spec == Init /\ [][Step]_vars

Arg(t, tagged) ==
  IF ~tagged THEN Sample(t)
  ELSE IF c.depth = 0 THEN Sample(t) \o " " \o TagMaps[c.k]
  ELSE InnerTagged(t, TagMaps[c.k])
Plain  == [p \in 1..Len(Table[c.i].ins) |-> Sample(Table[c.i].ins[p])]
Tagged == [p \in 1..Len(Table[c.i].ins) |-> Arg(Table[c.i].ins[p], p \in c.S)]
Export == ready => PrintT(<<"REPLAY", ToJson([w |-> Table[c.i].w, cls |-> Table[c.i].cls, plain |-> Plain, tagged |-> Tagged,
                                                 k |-> c.k, depth |-> c.depth])>>)
=============================================================================
