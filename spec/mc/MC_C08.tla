------------------------------- MODULE MC_C08 -------------------------------
(***************************************************************************)
(* C08: the call-level next-state relation of the interpreter is TOTAL: in  *)
(* every state every call has an outcome Ok or Err(class); no action of the  *)
(* specification produces a panic (Trace_Total).  This module generates the  *)
(* complete matrix  word x argument tuple  for the tabulated words           *)
(* (Words.tla gives the arity) from a pool that crosses every type with the  *)
(* integer boundary values the property lists, and the pool itself for the   *)
(* words that are not tabulated (the harness tries arities 0..3 on them).    *)
(***************************************************************************)
EXTENDS Words, TLC, Json

CONSTANT Size        \* "core" | "full"

Ints == << "0", "1", "-1", "2", "255", "256", "65535", "65536", "9223372036854775807", "9223372036854775808", "18446744073709551615",
           "18446744073709551616", "-9223372036854775808", "-9223372036854775809", "170141183460469231731687303715884105727",
           "-170141183460469231731687303715884105728" >>
Others == << "0.0", "-0.0", "1.5", "1.0e308", "1.0e308 10.0 *", "1.0e308 10.0 * dup -", "\"\"", "\"a\"", "\"12\"",
             "@NONASCII76@", "nil", "true", "false", "[ ]", "[ 1 2 3 ]", "[ [ 1 ] \"a\" nil ]", "{ }", "{ 1 \"a\" }",
             "| |", "|ff|", "|x.x|", "|01 02 03 04 05 06 07 08 09|", "5 { } with-tags", "\"1f\" 16 \"#fmt\" insert-tag", "5 \"x\" \"#fmt\" insert-tag",
             "\"12\" 99 \"#fmt\" insert-tag", "\"12\" 0 \"#fmt\" insert-tag", "5 70000 \"#fmt\" insert-tag", "|ff| 65536 \"#fmt\" insert-tag",
             "[ 1 2 ] 4294967296 \"#fmt\" insert-tag", "1.5 18446744073709551615 \"#fmt\" insert-tag", "[ 1 2 ] { 1 \"k\" } with-tags" >>
Core == << "0", "-1", "256", "9223372036854775808", "-9223372036854775808", "18446744073709551616", "170141183460469231731687303715884105727", "-170141183460469231731687303715884105728",
           "1.5", "1.0e308 10.0 * dup -", "\"\"", "@NONASCII76@", "nil", "[ 1 2 3 ]", "{ 1 \"a\" }", "|x.x|", "5 \"x\" \"#fmt\" insert-tag",
           "0 { 1 \"k\" } with-tags", "-1 { 1 \"k\" } with-tags", "|00 01| open-bitstr u8", "[ ] { 1 \"k\" } with-tags" >>
Tiny == << "0", "-1", "18446744073709551616", "\"a\"", "[ 1 2 3 ]", "|x.x|", "0 { 1 \"k\" } with-tags" >>
\* every type once more under a tag map (words that match on the cell instead of its value), boundary integers included
Tagged(x) == x \o " { 1 \"k\" } with-tags"
TaggedPool == << Tagged("0"), Tagged("-1"), Tagged("1"), Tagged("-170141183460469231731687303715884105728"), Tagged("18446744073709551616"),
                Tagged("0.0"), Tagged("\"\""), Tagged("nil"), Tagged("true"), Tagged("[ ]"), Tagged("{ }"), Tagged("| |"), Tagged("|ff|"),
                "|00 01| open-bitstr u8", "|00 01| open-bitstr 3 bits" >>
Full == Ints \o Others \o TaggedPool
Pool(ar) == IF ar <= 1 THEN Full ELSE IF ar = 2 THEN (IF Size = "full" THEN Full ELSE Core) ELSE (IF Size = "full" THEN Core ELSE Tiny)

Names == {Table[i].w : i \in 1..Len(Table)}
Arity(w) == LET rows == {i \in 1..Len(Table) : Table[i].w = w} IN Len(Table[CHOOSE i \in rows : TRUE].ins)

VARIABLES c, ready
Init == /\ ready = FALSE
        /\ \E w \in Names : LET ar == Arity(w)  p == Pool(ar) IN
             \E t \in [1..ar -> 1..Len(p)] : c = [w |-> w, args |-> [k \in 1..ar |-> p[t[k]]]]
Step == ~ready /\ ready' = TRUE /\ UNCHANGED c
Spec == Init /\ [][Step]_<<c, ready>>
Export == ready => PrintT(<<"REPLAY", ToJson(c)>>)
\* the pool, for the words outside the table
ExportPool == PrintT(<<"POOL", ToJson([full |-> Full, core |-> Core, tiny |-> Tiny, tabulated |-> Names])>>)
=============================================================================
