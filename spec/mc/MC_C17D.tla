------------------------------ MODULE MC_C17D ------------------------------
(***************************************************************************)
(* C17 for failures that happen while a source is still being built, and    *)
(* for sources nested in sources.  A case is a list of sources (token       *)
(* lists); source 1 is submitted, the others are pulled in by a             *)
(* pseudo-token of an earlier one:                                          *)
(*      "@inj:k"   stands for   #( "<text of source k>" ~)                  *)
(*      "@inc:k"   stands for   include "<file holding source k>"           *)
(* The ground truth is stated here, per construction: which token of which  *)
(* source raises the error, and its class.                                  *)
(*   plain      P F S                                                       *)
(*   meta       P #( F S #) 8          F runs while source 1 is compiled    *)
(*   metacall   : f F ; P #( f S #)    ... inside a called definition       *)
(*   metaloop   #( 2 0 do F loop #)    ... inside a loop of the block       *)
(*   imm        : g F immediate ; P g S   ... inside an immediate word      *)
(*   injin      @inj:2 9    with source 2 = P F S     (failure inside)      *)
(*   injafter   Q @inj:2 F S   with source 2 benign: F's failing token is   *)
(*              the FIRST token after the injected text                     *)
(*   incin / incafter   the same through include                            *)
(* F ranges over an unknown word (build time) and two run-time failures.    *)
(***************************************************************************)
EXTENDS Naturals, Sequences, TLC, Json

\* failing phrases: tokens, index of the token that fails, class, and the tokens that must be on the stack before
\* when the phrase is cut down to its failing token alone (for the "first token after" constructions)
Phrases == { [toks |-> <<"foo">>, at |-> 1, cls |-> "Unknown", time |-> "build", pre |-> <<>>, last |-> <<"foo">>],
             [toks |-> <<"1", "0", "/">>, at |-> 3, cls |-> "DivZero", time |-> "run", pre |-> <<"1", "0">>, last |-> <<"/">>],
             [toks |-> <<"nil", "1", "+">>, at |-> 3, cls |-> "Type", time |-> "run", pre |-> <<"nil", "1">>, last |-> <<"+">>] }
Prefixes == { <<>>, <<"7">>, <<"7", "dup">> }
Suffixes == { <<>>, <<"5">>, <<"5", "drop">> }
Kinds == {"plain", "meta", "metacall", "metaloop", "imm", "injin", "injafter", "incin", "incafter", "badname"}
\* a malformed token where a name is expected: the lexer rejects THAT token (the error is not moved to the word before it)
BadNames == << <<"7", "var", "12ab">>, <<":", "3z", "1", ";">>, <<"1", "!", "0x1.5">>, <<":", "f", "1", "local", "2d", ";">>, <<"late", "0b2">> >>
BadAt == <<3, 2, 3, 5, 2>>

Case(kind, F, P, S) ==
  CASE kind = "plain"    -> [srcs |-> << P \o F.toks \o S >>, src |-> 1, tok |-> Len(P) + F.at]
    [] kind = "meta"     -> [srcs |-> << P \o <<"#(">> \o F.toks \o S \o <<"#)", "8">> >>, src |-> 1, tok |-> Len(P) + 1 + F.at]
    [] kind = "metacall" -> [srcs |-> << <<":", "f">> \o F.toks \o <<";">> \o P \o <<"#(", "f">> \o S \o <<"#)">> >>, src |-> 1, tok |-> 2 + F.at]
    [] kind = "metaloop" -> [srcs |-> << P \o <<"#(", "2", "0", "do">> \o F.toks \o <<"loop">> \o S \o <<"#)">> >>, src |-> 1, tok |-> Len(P) + 4 + F.at]
    [] kind = "imm"      -> [srcs |-> << <<":", "g">> \o F.toks \o <<"immediate", ";">> \o P \o <<"g">> \o S >>, src |-> 1, tok |-> 2 + F.at]
    [] kind = "injin"    -> [srcs |-> << <<"@inj:2", "9">>, P \o F.toks \o S >>, src |-> 2, tok |-> Len(P) + F.at]
    [] kind = "incin"    -> [srcs |-> << <<"@inc:2", "9">>, P \o F.toks \o S >>, src |-> 2, tok |-> Len(P) + F.at]
    [] kind = "injafter" -> [srcs |-> << P \o F.pre \o <<"6", "@inj:2">> \o F.last \o S, <<"drop">> >>, src |-> 1, tok |-> Len(P) + Len(F.pre) + 3]
    [] kind = "badname"  -> LET n == 1 + ((Len(P) + Len(S) + F.at) % Len(BadNames)) IN
                            [srcs |-> << P \o BadNames[n] \o S >>, src |-> 1, tok |-> Len(P) + BadAt[n]]
    [] kind = "incafter" -> [srcs |-> << P \o F.pre \o <<"6", "@inc:2">> \o F.last \o S, <<"drop">> >>, src |-> 1, tok |-> Len(P) + Len(F.pre) + 3]

\* an unknown word inside a definition or a meta block is rejected when it is read: those constructions add nothing
\* over "plain" for a build-time failure, but the location must be right there as well
Applicable(kind, F) == TRUE

VARIABLE c
Init == c = <<>>
Next == c = <<>> /\ \E k \in Kinds, F \in Phrases, P \in Prefixes, S \in Suffixes : Applicable(k, F) /\ c' = <<k, F, P, S>>
Spec == Init /\ [][Next]_c
Export == c # <<>> => PrintT(<<"REPLAY", ToJson(Case(c[1], c[2], c[3], c[4]) @@ [kind |-> c[1], cls |-> IF c[1] = "badname" THEN "Parse" ELSE c[2].cls, time |-> c[2].time])>>)
=============================================================================
