------------------------------- MODULE MC_C17L -------------------------------
(***************************************************************************)
(* C17, where the blamed token is.  Location(text, p): line = number of      *)
(* line feeds before the token, column = characters since the last line      *)
(* feed / carriage return, quoted line = the maximal run without line breaks *)
(* that contains the token.  Enumerated over all prefixes of up to MaxLen    *)
(* character classes (LF, CR, tab, space, ASCII, 2/3/4-byte characters)      *)
(* followed by the token and an optional tail.                               *)
(***************************************************************************)
EXTENDS Naturals, Sequences, FiniteSets, TLC, Json
CONSTANT MaxLen
Cls == {"nl", "cr", "tab", "sp", "a", "m2", "m3", "m4"}
Break == {"nl", "cr"}
Tails == << <<>>, <<"sp", "a">>, <<"nl", "a">>, <<"cr", "nl">> >>

VARIABLES pre, tail
Init == pre = <<>> /\ tail \in 1..Len(Tails)
Next == Len(pre) < MaxLen /\ \E c \in Cls : pre' = Append(pre, c) /\ UNCHANGED tail
Spec == Init /\ [][Next]_<<pre, tail>>

\* the token is the single class "T" placed after the prefix (the harness uses a multi-character word)
Text == pre \o <<"T">> \o Tails[tail]
P == Len(pre) + 1
Line == Cardinality({i \in 1..(P - 1) : Text[i] = "nl"})
LastBreak == LET c == {i \in 1..(P - 1) : Text[i] \in Break} IN IF c = {} THEN 0 ELSE CHOOSE i \in c : \A j \in c : j <= i
Col == P - 1 - LastBreak
NextBreak == LET c == {i \in P..Len(Text) : Text[i] \in Break} IN IF c = {} THEN Len(Text) + 1 ELSE CHOOSE i \in c : \A j \in c : i <= j
Export == PrintT(<<"REPLAY", ToJson([text |-> Text, p |-> P, line |-> Line, col |-> Col, from |-> LastBreak + 1, to |-> NextBreak - 1])>>)
\* sanity of the definition itself
Sane == Col >= 0 /\ LastBreak < P /\ NextBreak > P /\ \A i \in (LastBreak + 1)..(NextBreak - 1) : Text[i] \notin Break
=============================================================================
