------------------------------- MODULE MC_Let -------------------------------
(***************************************************************************)
(* Every pattern of the `let` grammar up to a size, matched against every    *)
(* value of a pool chosen to hit each arm (wrong shape, too short, too long, *)
(* missing key, tagged / untagged, nested).  One REPLAY line per pair with   *)
(* the outcome Let.tla prescribes; the harness compiles the pattern text     *)
(* with the real `let` (top level: globals; inside a definition: locals).    *)
(***************************************************************************)
EXTENDS Let, Json

CONSTANT MaxLen          \* items per vector pattern

T7 == << <<StrV("k"), IntV(7)>> >>
Pool == { IntV(5), IntV(1), StrV("k"), NilV,
          VecV(<<>>), VecV(<<IntV(1)>>), VecV(<<IntV(1), IntV(5)>>), VecV(<<IntV(1), IntV(2), IntV(3)>>),
          VecV(<<VecV(<<IntV(1), IntV(2)>>), IntV(5)>>),
          VecV(<<MapV(<< <<IntV(1), IntV(5)>> >>), TagV(IntV(1), T7)>>),
          MapV(<<>>), MapV(<< <<IntV(1), IntV(5)>>, <<IntV(2), VecV(<<IntV(1)>>)>> >>), MapV(<< <<StrV("k"), IntV(1)>> >>),
          TagV(IntV(5), T7), TagV(VecV(<<IntV(1), IntV(5)>>), T7), TagV(MapV(<< <<IntV(1), IntV(1)>> >>), T7),
          VecV(<<TagV(IntV(1), T7), IntV(5)>>),
          \* vectors whose items are themselves of the shapes the small patterns want
          VecV(<<IntV(1), IntV(1)>>), VecV(<<IntV(5), IntV(1)>>),
          VecV(<<VecV(<<IntV(1), IntV(5)>>), VecV(<<IntV(1)>>)>>), VecV(<<VecV(<<IntV(1)>>), VecV(<<IntV(1), IntV(2), IntV(3)>>)>>),
          VecV(<<MapV(<< <<IntV(1), IntV(5)>> >>), MapV(<< <<IntV(1), IntV(1)>>, <<IntV(2), IntV(2)>> >>)>>),
          VecV(<<MapV(<< <<StrV("k"), IntV(5)>> >>), IntV(1)>>),
          VecV(<<TagV(IntV(1), T7), TagV(VecV(<<IntV(1)>>), T7)>>), VecV(<<TagV(IntV(5), T7), TagV(IntV(1), T7), IntV(5)>>),
          TagV(VecV(<<TagV(IntV(1), T7), IntV(1)>>), T7) }

Leaf == {PName, PLit(IntV(1)), PLit(IntV(5))}
Keys == {IntV(1), IntV(2), StrV("k")}
Small == { PVec(<<>>, PNone), PVec(<<PName>>, PNone), PVec(<<PName, PName>>, PNone), PVec(<<PName>>, PName), PVec(<<PLit(IntV(1))>>, PName),
           PMap(<< <<IntV(1), PName>> >>), PMap(<< <<StrV("k"), PName>> >>),
           PTag(PName, PName), PTag(PMap(<< <<StrV("k"), PName>> >>), PName), PTag(PMap(<< <<StrV("k"), PLit(IntV(7))>> >>), PLit(IntV(1))) }
Elem == Leaf \cup Small
Rests == {PNone, PName, PVec(<<PName>>, PNone), PLit(IntV(5))}

SeqsUpTo(S, n) == UNION {[1..k -> S] : k \in 0..n}
VecPats == { PVec(es, r) : es \in SeqsUpTo(Elem, MaxLen), r \in Rests }
MapPats == { PMap(ents) : ents \in SeqsUpTo(Keys \X Leaf, 2) } \cup { PMap(<< <<k, q>> >>) : k \in Keys, q \in Small }
TagPats == { PTag(tp, q) : tp \in {PName, PLit(IntV(1)), PMap(<<>>), PMap(<< <<StrV("k"), PName>> >>), PMap(<< <<StrV("z"), PName>> >>)}, q \in Elem }
Patterns == Leaf \cup VecPats \cup MapPats \cup TagPats

VARIABLE c
Init == c = <<>>
Next == c = <<>> /\ \E v \in Pool, P \in Patterns : c' = <<v, P>>
Spec == Init /\ [][Next]_c

\* a literal in tag position is not a pattern (`^ 1 x`): the compiler answers ExpectingName
WellFormed(P) == P.p # "tag" \/ P.tp.p # "lit"

Case == LET v == c[1]  P == c[2]  r == Match(v, P)  toks == PatToks(P) IN
        [value |-> v, toks |-> toks, names |-> NameCount(toks),
         err |-> IF ~WellFormed(P) THEN "Name" ELSE r.err, bound |-> IF WellFormed(P) THEN r.b ELSE <<>>]
Export == c # <<>> => PrintT(<<"REPLAY", ToJson(Case)>>)
=============================================================================
