------------------------------- MODULE MC_C14 -------------------------------
(***************************************************************************)
(* C14 on the design: with an instruction limit N, a stack limit S and a    *)
(* heap limit H, in EVERY state of every run of every generated program     *)
(*     meter <= N,   Len(data stack) <= S,   Len(heap) <= H,                *)
(* the operation that would exceed a limit is the failing action (error     *)
(* class Limit), and hitting the instruction limit is recoverable: after    *)
(* the limit is raised the run continues to the same final state as an      *)
(* unlimited run.  The machine is stepped one instruction per TLC action so *)
(* that the invariants are evaluated after every instruction.               *)
(* One REPLAY line per (program, limits): the outcome the design predicts   *)
(* and the unlimited run's state trail, for the harness.                    *)
(***************************************************************************)
EXTENDS ProgGen

VARIABLES m, lim, phase, resumed
allvars == <<vars, m, lim, phase, resumed>>

Inf == X!NoLimit
MaxRun == 120            \* every run has an instruction limit (the property presupposes one); this is the "large" one
Limits == {[n |-> a, s |-> Inf, h |-> Inf] : a \in {0, 1, 2, 3, 5, 8, 13}}
     \cup {[n |-> MaxRun, s |-> a, h |-> Inf] : a \in {0, 1, 2, 3}}
     \cup {[n |-> MaxRun, s |-> Inf, h |-> a] : a \in {0, 1}}
     \cup {[n |-> 4, s |-> 2, h |-> 1], [n |-> 21, s |-> 4, h |-> 2]}

\* what was submitted before the limits are set: leaves two items on the stack, so that a meta block of the judged
\* program runs on top of a hidden outer stack (which counts towards the stack limit)
Prior == IF Frag = "metalim" THEN <<L(1), L(1)>> ELSE <<>>
Base0 == IF Prior = <<>> THEN X!Boot ELSE X!Submit(X!Boot, X!Label(Prior, 1), "eval")
Ltoks == X!Label(toks, 2)
Set(b, l) == [b EXCEPT !.ilim = l.n, !.slim = l.s, !.hlim = l.h, !.meter = 0]
Compile(l) == X!Submit(Set(Base0, l), Ltoks, "compile")

\* unlimited reference run on the design (bounded by MaxRun instructions)
RECURSIVE Trail(_, _)
Proj(v) == [ip |-> v.ctx.ip, ds |-> v.ds, heap |-> v.heap]
Trail(v, fuel) == IF fuel = 0 \/ ~X!Ok(v) \/ ~X!Running(v) THEN <<Proj(v)>>
                  ELSE <<Proj(v)>> \o Trail(X!Step(v), fuel - 1)
Free == X!Submit(Set(Base0, [n |-> MaxRun, s |-> Inf, h |-> Inf]), Ltoks, "compile")
FreeFinal == X!Run(Free)

Init2 == Init /\ m = X!Boot /\ lim = [n |-> 0, s |-> 0, h |-> 0] /\ phase = "gen" /\ resumed = FALSE

Pick == /\ phase = "gen" /\ done
        /\ \E l \in Limits :
             /\ lim' = l
             /\ m' = Compile(l)
             /\ phase' = IF X!Ok(Compile(l)) THEN "run" ELSE "end"
        /\ resumed' = FALSE /\ UNCHANGED vars

StepA == /\ phase = "run" /\ X!Ok(m) /\ X!Running(m)
         /\ m' = X!Step(m)
         /\ UNCHANGED <<vars, lim, phase, resumed>>

\* set_insn_limit(None) after the instruction limit was hit: the meter restarts
Raise == /\ phase = "run" /\ m.err = "Limit" /\ ~resumed /\ m.meter >= m.ilim /\ lim.n < MaxRun
         /\ m' = [m EXCEPT !.err = "none", !.ilim = MaxRun, !.meter = 0]
         /\ resumed' = TRUE /\ UNCHANGED <<vars, lim, phase>>

Stop == /\ phase = "run" /\ (~X!Ok(m) \/ ~X!Running(m)) /\ ~(m.err = "Limit" /\ ~resumed /\ m.meter >= m.ilim /\ lim.n < MaxRun)
        /\ phase' = "end" /\ UNCHANGED <<vars, m, lim, resumed>>

Next == (phase = "gen" /\ GenNext /\ UNCHANGED <<m, lim, phase, resumed>>) \/ Pick \/ StepA \/ Raise \/ Stop
Spec == Init2 /\ [][Next]_allvars

\* ---- the property on the design
\* a limit set below the current size bounds growth, it cannot shrink what is already there
Max(a, b) == IF a > b THEN a ELSE b
HardBounds == phase \in {"run", "end"} =>
                /\ (resumed \/ m.meter <= lim.n)
                /\ Len(m.ds) <= Max(lim.s, Len(Base0.ds))
                /\ Len(m.heap) <= Max(lim.h, Len(Base0.heap))
\* hitting the instruction limit is recoverable: the resumed run ends like the unlimited one
Recoverable == (phase = "end" /\ resumed /\ lim.s = Inf /\ lim.h = Inf /\ Len(Trail(Free, MaxRun)) < MaxRun) =>
                 /\ m.err = FreeFinal.err /\ m.ds = FreeFinal.ds /\ m.heap = FreeFinal.heap
\* a limit error is raised only when the limit really is reached
LimitOnlyAtLimit == (phase = "run" /\ m.err = "Limit" /\ ~resumed) =>
                      (m.meter >= lim.n \/ Len(m.ds) >= lim.s \/ Len(m.heap) >= lim.h)

\* ---- export (at the moment the limits are picked: everything below is a function of toks and lim)
Outcome(l) == LET c == Compile(l) IN IF X!Ok(c) THEN X!Run(c) ELSE c
\* which limit stopped the run: the instruction limit stops it at a fetch, with no partial effect, in exactly the state
\* the same run reaches under the instruction limit alone; otherwise a growth path was refused
InsnOnly(l) == Outcome([n |-> l.n, s |-> Inf, h |-> Inf])
Which(v, l) == IF v.err # "Limit" THEN "none"
               ELSE IF InsnOnly(l).err = "Limit" /\ InsnOnly(l).ds = v.ds /\ InsnOnly(l).heap = v.heap /\ InsnOnly(l).ctx.ip = v.ctx.ip /\ InsnOnly(l).ss = v.ss
                    THEN "insn"
               ELSE IF Len(v.heap) >= l.h /\ l.h # Inf THEN "heap" ELSE "stack"
L2J(x) == IF x = Inf THEN -1 ELSE x
Case(l) == LET v == Outcome(l)  t == Trail(Free, MaxRun) IN
  [src |-> SrcText, prior |-> [i \in 1..Len(Prior) |-> TokText(Prior[i])], n |-> L2J(l.n), s |-> L2J(l.s), h |-> L2J(l.h),
   err |-> v.err, which |-> Which(v, l), ds |-> X!Visible(v), heap |-> v.heap, out |-> v.out,
   free_ok |-> IF X!Ok(Free) THEN 1 ELSE 0,
   free_terminates |-> IF Len(t) < MaxRun THEN 1 ELSE 0,
   free_final |-> [err |-> FreeFinal.err, ds |-> FreeFinal.ds, heap |-> FreeFinal.heap],
   trail |-> [k \in 1..(IF l.n = MaxRun THEN 0 ELSE IF Len(t) < l.n + 1 THEN Len(t) ELSE l.n + 1) |-> [ds |-> t[k].ds, heap |-> t[k].heap]]]
Export == (phase = "gen" /\ done) => \A l \in Limits : PrintT(<<"REPLAY", ToJson(Case(l))>>)
=============================================================================
