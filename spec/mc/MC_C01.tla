------------------------------- MODULE MC_C01 -------------------------------
(***************************************************************************)
(* C01: every program of the control-flow grammar, up to a phrase budget,  *)
(* is generated token by token (ProgGen), compiled and run by the           *)
(* implementation-shaped design (Xeh.tla) and evaluated by the structural   *)
(* reference (Src.tla).  TLC checks that the two agree on the design and    *)
(* prints one REPLAY line per program carrying the reference's prediction;  *)
(* the harness replays every line on the real crate.                        *)
(***************************************************************************)
EXTENDS ProgGen

Next == GenNext
Spec == Init /\ [][Next]_vars

\* ------------------------------------------------------------------ the two evaluations
InsnSmall == 25
TokFuel   == InsnSmall * (Len(toks) + 1) + 1
InsnBig   == 2000

Ref   == S!SEval(toks, TokFuel)
VmBig == X!Submit([X!Boot EXCEPT !.ilim = InsnBig], X!Label(toks, 1), "eval")
VmSmall == X!Submit([X!Boot EXCEPT !.ilim = InsnSmall], X!Label(toks, 1), "eval")

Below(ds, a) == IF Len(ds) >= a THEN SubSeq(ds, 1, Len(ds) - a) ELSE <<>>
VarSeq(r) == LET names == S!VarNames(toks) IN [nm \in names |-> S!VarValue(toks, r, nm)]

Kind(r) == IF r.skip THEN "skip" ELSE IF r.err = "none" THEN "done" ELSE IF r.err = "timeout" THEN "timeout" ELSE "fail"

\* agreement of the design with the reference (the statement of C01 on the specification)
Agree ==
  LET r == Ref IN
  CASE Kind(r) = "skip" -> TRUE
    [] Kind(r) = "done" -> LET v == VmBig IN
         /\ v.err = "none" /\ X!Visible(v) = r.ds /\ v.out = r.out
         /\ Len(v.ls) = 0                                       \* a terminated counted loop leaves no index behind
         /\ \A nm \in S!VarNames(toks) :
              LET p == X!DictPos(v, nm) IN p # 0 /\ v.dict[p].k = "var" /\ v.heap[v.dict[p].a + 1] = S!VarValue(toks, r, nm)
    [] Kind(r) = "fail" -> LET v == VmBig IN
         /\ v.err = r.err /\ v.out = r.out
         /\ Len(X!Visible(v)) >= Len(Below(r.ds, r.arity)) /\ Len(X!Visible(v)) <= Len(r.ds)
         /\ Take(X!Visible(v), Len(Below(r.ds, r.arity))) = Below(r.ds, r.arity)
    [] Kind(r) = "timeout" -> VmSmall.err = "Limit"              \* never falls through

\* the control-flow skeleton of the code the design compiles (absolute targets): compared with the real compiler's
\* listing (hook verif_code) as DRIFT - it binds Xeh.tla's back-patching, which C02/C10/C11/C14/C15 build on
Skeleton ==
  LET c == X!Submit(X!Boot, X!Label(toks, 1), "compile") IN
  IF ~X!Ok(c) THEN <<"uncompiled">>
  ELSE [k \in 1..Len(c.code) |->
         LET o == c.code[k]  ip == k - 1 IN
         CASE o.op = "jump"   -> "jump " \o ToString(ip + o.a)
           [] o.op = "jifn"   -> "jumpifnot " \o ToString(ip + o.a)
           [] o.op = "jif"    -> "jumpif " \o ToString(ip + o.a)
           [] o.op = "caseof" -> "caseof " \o ToString(ip + o.a)
           [] o.op = "do"     -> "do " \o ToString(ip + o.a)
           [] o.op = "loop"   -> "loop " \o ToString(ip + o.a)
           [] o.op = "break"  -> "break " \o ToString(ip + o.a)
           [] o.op = "call"   -> "call " \o ToString(o.a)
           [] o.op = "ret"    -> "ret"
           [] OTHER -> "other"]

Replay ==
  LET r == Ref
      base == [src |-> SrcText, kind |-> Kind(r), agree |-> Agree, code |-> Skeleton] IN
  CASE Kind(r) = "skip"    -> base
    [] Kind(r) = "done"    -> base @@ [ds |-> r.ds, out |-> r.out, vars |-> VarSeq(r), limit |-> 200000]
    [] Kind(r) = "fail"    -> base @@ [cls |-> r.err, below |-> Below(r.ds, r.arity), slack |-> Len(r.ds) - Len(Below(r.ds, r.arity)),
                                       out |-> r.out, limit |-> 200000]
    [] Kind(r) = "timeout" -> base @@ [limit |-> InsnSmall]

Export == done => PrintT(<<"REPLAY", ToJson(Replay)>>)
=============================================================================
