------------------------------- MODULE MC_C03 -------------------------------
(***************************************************************************)
(* C03: a cloned interpreter is an independent snapshot.  On the            *)
(* specification level an interpreter IS a value: the state of an instance   *)
(* is a function of the sequence of calls applied to it since boot           *)
(* (including those it inherited from the instance it was cloned from).      *)
(* TLC enumerates every history of length L over                             *)
(*     Clone(i -> j)   Submit(i, source)   Step(i)   RStep(i)   SetInput(i)  *)
(* with up to three instances (clone of clone included) and sources from a   *)
(* themed alphabet built to share storage and then mutate it.  The histories *)
(* are executed on the real crate; Trace_CloneObs validates the dumps.       *)
(***************************************************************************)
EXTENDS Naturals, Sequences, FiniteSets, TLC, Json

CONSTANTS Theme, L, Pre      \* Pre = "on": instance 1 first evaluates the theme's prelude (storage to share already exists)
Ids == 1..3

Sources ==
  CASE Theme = "bits" ->
        << "|12 34 56| var p", "p open-bitstr 4 bits drop 8 bits var s close-bitstr", "s |f| bitstr-append var s2", "s bitstr-not drop",
           "p bitstr-not ! p", "s |0f| swap bitstr-append ! s", "p s bitstr-xor ! p", "s 8 bits", "p bitstr>hex print",
           \* the prelude leaves on the stack a slice that is the ONLY owner of its buffer within one interpreter (no variable,
           \* no literal holds it): bits 0..12 of a 16-bit buffer, ending off a byte boundary with stale bits behind it: after a clone the two
           \* copies share it, the first one to append must copy, the last one is alone with the buffer
           "|ff| swap bitstr-append", "|0| swap bitstr-append", "dup |f| swap bitstr-append", "bitstr-not", "bitstr-not open-bitstr offset close-bitstr" >>
    [] Theme = "vars" ->
        << "5 var v", "v 1 + ! v", "[ 1 2 ] var w", "3 w push ! w", "{ 1 \"a\" } var m", "m 2 \"b\" insert ! m", "m \"a\" remove ! m",
           "w reverse ! w", "v w m", "drop" >>
    [] Theme = "defs" ->
        << ": f 1 ;", ": g f 2 * ;", "late h", ": h 9 ;", "h", "g", ": f 7 ;", "f", "#( 3 const k #)", "k", "foo", "1 0 /", "u" >>
    [] Theme = "cursor" ->
        << "|01 02 03 04| open-bitstr", "u8", "4 bits", "close-bitstr", "big", "little", "u16", "9 seek", "8 seek", "remain offset",
           "|ff| emit", "|c3 d4| emit", "output", "1 print" >>
    [] Theme = "canvas" ->
        << "2 2 d2-resize", "1 d2-color!", "0 0 d2-data!", "1 1 d2-data!", "0 0 d2-data", "d2-clear", "7 d2-color!", "d2-width", "[ 5 6 7 ] d2-palette!",
           "3 3 d2-resize", "0 d2-color!", "d2-context print" >>
    [] Theme = "step" ->
        << "C:1 2 + 3 *", "C:: f 2 0 do I local x x drop loop ; f", "C:[ 1 2 ] foreach I loop", "N", "N", "R", "REC", "RUN", "9 var q", "q 1 + ! q" >>

Calls == {Sources[k] : k \in 1..Len(Sources)}

Prelude ==
  CASE Theme = "bits"   -> "|12 34 56| var p p open-bitstr 4 bits drop 8 bits var s close-bitstr s |f| bitstr-append var s2 [ 0x12 0x3f ] >bitstr open-bitstr 12 bits close-bitstr"
    [] Theme = "vars"   -> "5 var v [ 1 2 ] var w { 1 \"a\" } var m"
    [] Theme = "defs"   -> ": f 1 ; : g f 2 * ; late h : u h 1 + ; : h 9 ; #( 3 const k #)"     \* u resolves h at its first call
    [] Theme = "cursor" -> "|aa bb| emit |01 02 03 04| open-bitstr u8"
    [] Theme = "canvas" -> "2 2 d2-resize [ 10 20 30 ] d2-palette! 1 d2-color! 0 0 d2-data! 2 d2-color! 1 0 d2-data!"
    [] Theme = "step"   -> "REC"

VARIABLES h, alive
vars == <<h, alive>>
H0 == IF Pre = "on" THEN << [k |-> "call", i |-> 1, j |-> 0, c |-> Prelude] >> ELSE <<>>
Init == h = H0 /\ alive = {1}
Act == \E i \in alive, c \in Calls : h' = Append(h, [k |-> "call", i |-> i, j |-> 0, c |-> c]) /\ UNCHANGED alive
Clone == /\ alive # Ids
         /\ \E i \in alive : LET j == CHOOSE x \in Ids \ alive : \A y \in Ids \ alive : x <= y IN
              /\ h' = Append(h, [k |-> "clone", i |-> i, j |-> j, c |-> ""])
              /\ alive' = alive \cup {j}
Next == Len(h) < L + Len(H0) /\ (Act \/ Clone)
Spec == Init /\ [][Next]_vars

\* only histories that clone at least once say anything about C03
Export == (Len(h) = L + Len(H0) /\ \E k \in 1..Len(h) : h[k].k = "clone") => PrintT(<<"REPLAY", ToJson([theme |-> Theme, h |-> h])>>)
=============================================================================
