SPECIFICATION Spec
CONSTANTS
  Frag = "cond"
  Budget = 3
  Legacy = {}
INVARIANT Export
CHECK_DEADLOCK FALSE
