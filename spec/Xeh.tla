-------------------------------- MODULE Xeh --------------------------------
(***************************************************************************)
(* The xeh interpreter at the grain of src/state.rs: one-pass back-patching *)
(* compiler, stack VM with reverse log, evaluation contexts, pending input. *)
(*                                                                          *)
(* The whole interpreter is ONE record `m`; every primitive is a pure       *)
(* operator m -> m' that is the identity once m.err # "none" (this is how   *)
(* Rust's `?` is modelled), so the same definitions serve exhaustive        *)
(* exploration, two-run comparisons and trace validation.                   *)
(*                                                                          *)
(* Addresses are 0-based exactly as in the implementation (code[ip + 1]).   *)
(* Legacy: set of names of behaviours of the pinned commit that were        *)
(* repaired by `fix:` commits; regression configs re-enable them to show    *)
(* that the model checker exhibits the original defect on the design.       *)
(***************************************************************************)
EXTENDS Values, TLC

CONSTANT Legacy

NoLimit == 1000000

\* ------------------------------------------------------------------ opcodes
Op(o, a)  == [op |-> o, a |-> a, v |-> NilV, w |-> ""]
OpLit(c)  == [op |-> "lit", a |-> 0, v |-> c, w |-> ""]
OpNat(w)  == [op |-> "native", a |-> 0, v |-> NilV, w |-> w]
OpRes(w)  == [op |-> "resolve", a |-> 0, v |-> NilV, w |-> w]

\* RelativeJump::from_to; the pinned commit remapped distance 0 to +1
Rel(origin, dest) == IF dest - origin = 0 /\ "jump0" \in Legacy THEN 1 ELSE dest - origin

\* ------------------------------------------------------------------ tokens
TLit(c, id) == [t |-> "lit", v |-> c, s |-> "", id |-> id]
TWord(s, id) == [t |-> "w", v |-> NilV, s |-> s, id |-> id]
TBad(s, id)  == [t |-> "bad", v |-> NilV, s |-> s, id |-> id]

\* ------------------------------------------------------------------ machine
Ctx0 == [ds_len |-> 0, cs_len |-> 0, rs_len |-> 0, fs_len |-> 0, ls_len |-> 0, ss_ptr |-> 0,
         di_len |-> 0, ip |-> 0, mode |-> "eval"]

Boot == [ code |-> <<>>, dbg |-> <<>>, dict |-> <<>>, heap |-> <<>>, input |-> <<>>,
          ds |-> <<>>, rs |-> <<>>, ls |-> <<>>, ss |-> <<>>, fs |-> <<>>,
          ctx |-> Ctx0, nested |-> <<>>,
          meter |-> 0, ilim |-> NoLimit, slim |-> NoLimit, hlim |-> NoLimit,
          rec |-> FALSE, rlog |-> <<>>, out |-> <<>>,
          err |-> "none", errv |-> NilV, lasttok |-> 0, errtok |-> 0, srcs |-> 0,
          rf |-> FALSE ]      \* run_failed: the last run()/next() stopped on an error

Ok(m)       == m.err = "none"
Fail(m, k)  == IF Ok(m) THEN [m EXCEPT !.err = k] ELSE m
FailV(m, k, v) == IF Ok(m) THEN [m EXCEPT !.err = k, !.errv = v] ELSE m
Depth(m)    == Len(m.ds) - m.ctx.ds_len
Log(m, e)   == IF m.rec THEN [m EXCEPT !.rlog = Append(@, e)] ELSE m
Ip(m)       == m.ctx.ip
Running(m)  == Ip(m) < Len(m.code)

\* ------------------------------------------------------------------ primitives (each logs its inverse)
Push(m, v) == IF ~Ok(m) THEN m ELSE
              IF Len(m.ds) >= m.slim THEN Fail(m, "Limit")
              ELSE [Log(m, [k |-> "PopData"]) EXCEPT !.ds = Append(@, v)]
Top(m)     == Last(m.ds)
Pop(m)     == IF ~Ok(m) THEN m ELSE
              IF Depth(m) < 1 THEN Fail(m, "Underflow")
              ELSE [Log(m, [k |-> "PushData", v |-> Top(m)]) EXCEPT !.ds = Front(@)]
SetIp(m, n) == IF ~Ok(m) THEN m ELSE [Log(m, [k |-> "SetIp", ip |-> m.ctx.ip]) EXCEPT !.ctx.ip = n]
NextIp(m)   == SetIp(m, m.ctx.ip + 1)
PushRet(m, f) == IF ~Ok(m) THEN m ELSE [Log(m, [k |-> "PopReturn"]) EXCEPT !.rs = Append(@, f)]
PopRet(m)   == IF ~Ok(m) THEN m ELSE
               IF Len(m.rs) <= m.ctx.rs_len THEN Fail(m, "RsUnderflow")
               ELSE [Log(m, [k |-> "PushReturn", f |-> Last(m.rs)]) EXCEPT !.rs = Front(@)]
HasFrame(m) == Len(m.rs) > m.ctx.rs_len
PushLoop(m, l) == IF ~Ok(m) THEN m ELSE [Log(m, [k |-> "PopLoop"]) EXCEPT !.ls = Append(@, l)]
HasLoop(m)  == Len(m.ls) > m.ctx.ls_len
PopLoop(m)  == IF ~Ok(m) THEN m ELSE
               IF ~HasLoop(m) THEN Fail(m, "LsUnderflow")
               ELSE [Log(m, [k |-> "PushLoop", l |-> Last(m.ls)]) EXCEPT !.ls = Front(@)]
PushSpecial(m, p) == IF ~Ok(m) THEN m ELSE [Log(m, [k |-> "PopSpecial"]) EXCEPT !.ss = Append(@, p)]
HasSpecial(m) == Len(m.ss) > m.ctx.ss_ptr
PopSpecial(m) == IF ~Ok(m) THEN m ELSE
                 [Log(m, [k |-> "PushSpecial", p |-> Last(m.ss)]) EXCEPT !.ss = Front(@)]

\* heap access refuses to work in meta mode
HeapGetOk(m, a) == m.ctx.mode # "meta" /\ a >= 0 /\ a < Len(m.heap)
SwapRef(m, a, v) == IF ~Ok(m) THEN m ELSE
                    IF m.ctx.mode = "meta" THEN Fail(m, "Context")
                    ELSE IF a < 0 \/ a >= Len(m.heap) THEN Fail(m, "Msg")
                    ELSE [Log(m, [k |-> "SwapRef", a |-> a, v |-> m.heap[a + 1]]) EXCEPT !.heap[a + 1] = v]
AllocHeap(m, v) == IF ~Ok(m) THEN m ELSE
                   IF m.ctx.mode = "meta" THEN Fail(m, "Context")
                   ELSE IF Len(m.heap) >= m.hlim THEN Fail(m, "Limit")
                   ELSE [m EXCEPT !.heap = Append(@, v)]

\* ------------------------------------------------------------------ native words (by primitives)
InModel(n) == n > -1073741824 /\ n < 1073741824
SmallMul(n) == n > -32768 /\ n < 32768

\* (a b -- c): dispatch on the right operand's type, as arith.rs does
BinInt(m, F(_, _), guardMul) ==
  LET m1 == Pop(m) IN IF ~Ok(m1) THEN m1 ELSE
  LET b == Top(m)  m2 == Pop(m1) IN IF ~Ok(m2) THEN m2 ELSE
  LET a == Top(m1) IN
  IF Untag(b).ty # "int" THEN FailV(m2, "Type", b)
  ELSE IF Untag(a).ty # "int" THEN FailV(m2, "Type", a)
  ELSE IF guardMul /\ ~(SmallMul(Untag(a).i) /\ SmallMul(Untag(b).i)) THEN Fail(m2, "OutOfModel")
  ELSE LET r == F(Untag(a).i, Untag(b).i) IN
       IF r.ty = "int" /\ ~InModel(r.i) THEN Fail(m2, "OutOfModel") ELSE
       IF r.ty = "err" THEN Fail(m2, r.k) ELSE Push(m2, r)

\* truncating division / remainder with the sign of the dividend, on TLA+ integers
Abs(n)  == IF n < 0 THEN -n ELSE n
Sgn(n)  == IF n < 0 THEN -1 ELSE 1
DivT(a, b) == Sgn(a) * Sgn(b) * (Abs(a) \div Abs(b))
RemT(a, b) == a - b * DivT(a, b)
ErrR(k) == [ty |-> "err", k |-> k]

BinFlag(m, F(_, _)) ==
  LET m1 == Pop(m) IN IF ~Ok(m1) THEN m1 ELSE
  LET b == Top(m)  m2 == Pop(m1) IN IF ~Ok(m2) THEN m2 ELSE
  LET a == Top(m1) IN
  IF Untag(a).ty # "flag" THEN FailV(m2, "Type", a)
  ELSE IF Untag(b).ty # "flag" THEN FailV(m2, "Type", b)
  ELSE Push(m2, BoolV(F(Untag(a).b = 1, Untag(b).b = 1)))

\* I / J / K: n-th loop entry from the top of the current context's loops
Counter(m, n) ==
  IF Len(m.ls) - m.ctx.ls_len <= n THEN Fail(m, "LsUnderflow")
  ELSE LET l == m.ls[Len(m.ls) - n] IN
       IF l.items.ty = "nil" THEN Push(m, IntV(l.s))
       ELSE IF l.items.ty = "vec" THEN
            (IF l.s + 1 <= Len(l.items.items) /\ l.s >= 0 THEN Push(m, l.items.items[l.s + 1]) ELSE Fail(m, "Internal"))
       ELSE Fail(m, "OutOfModel")

RECURSIVE PopN(_, _)
PopN(m, n) == IF n = 0 \/ ~Ok(m) THEN m ELSE PopN(Pop(m), n - 1)
RECURSIVE PushAll(_, _, _)
PushAll(m, xs, k) == IF k > Len(xs) \/ ~Ok(m) THEN m ELSE PushAll(Push(m, xs[k]), xs, k + 1)

\* "]" at run time: pop the mark, collect everything above it
VecEnd(m) ==
  IF ~HasSpecial(m) THEN Fail(m, "ControlFlow") ELSE
  LET p == Last(m.ss)  m1 == PopSpecial(m) IN
  IF Len(m1.ds) < p THEN Fail(m1, "ControlFlow")
  ELSE LET items == SubSeq(m1.ds, p + 1, Len(m1.ds))
           m2 == PopN(m1, Len(m1.ds) - p) IN
       Push(m2, VecV(items))



Native(m, w) ==
  CASE w = "dup"   -> IF Depth(m) < 1 THEN Fail(m, "Underflow") ELSE Push(m, Top(m))
    [] w = "drop"  -> Pop(m)
    [] w = "swap"  -> IF Depth(m) < 2 THEN Fail(m, "Underflow")
                      ELSE LET n == Len(m.ds) IN
                           [Log(m, [k |-> "SwapData"]) EXCEPT !.ds = [@ EXCEPT ![n] = m.ds[n - 1], ![n - 1] = m.ds[n]]]
    [] w = "rot"   -> IF Depth(m) < 3 THEN Fail(m, "Underflow")     \* exchanges the 1st and the 3rd item
                      ELSE LET n == Len(m.ds) IN
                           [Log(m, [k |-> "RotData"]) EXCEPT !.ds = [@ EXCEPT ![n] = m.ds[n - 2], ![n - 2] = m.ds[n]]]
    [] w = "over"  -> IF Depth(m) < 2 THEN Fail(m, "Underflow")
                      ELSE Push(Log(m, [k |-> "OverData"]), m.ds[Len(m.ds) - 1])
    [] w = "depth" -> Push(m, IntV(Depth(m)))
    [] w = "+"     -> BinInt(m, LAMBDA a, b : IntV(a + b), FALSE)
    [] w = "-"     -> BinInt(m, LAMBDA a, b : IntV(a - b), FALSE)
    [] w = "*"     -> BinInt(m, LAMBDA a, b : IntV(a * b), TRUE)
    [] w = "/"     -> BinInt(m, LAMBDA a, b : IF b = 0 THEN ErrR("DivZero") ELSE IntV(DivT(a, b)), FALSE)
    [] w = "rem"   -> BinInt(m, LAMBDA a, b : IF b = 0 THEN ErrR("DivZero") ELSE IntV(RemT(a, b)), FALSE)
    [] w = "<"     -> BinInt(m, LAMBDA a, b : BoolV(a < b), FALSE)
    [] w = ">"     -> BinInt(m, LAMBDA a, b : BoolV(a > b), FALSE)
    [] w = "=="    -> BinInt(m, LAMBDA a, b : BoolV(a = b), FALSE)
    [] w = "<>"    -> BinInt(m, LAMBDA a, b : BoolV(a # b), FALSE)
    [] w = "<="    -> BinInt(m, LAMBDA a, b : BoolV(a <= b), FALSE)
    [] w = ">="    -> BinInt(m, LAMBDA a, b : BoolV(a >= b), FALSE)
    [] w = "and"   -> BinFlag(m, LAMBDA a, b : a /\ b)
    [] w = "or"    -> BinFlag(m, LAMBDA a, b : a \/ b)
    [] w = "not"   -> LET m1 == Pop(m) IN IF ~Ok(m1) THEN m1
                      ELSE IF Untag(Top(m)).ty # "flag" THEN FailV(m1, "Type", Top(m))
                      ELSE Push(m1, BoolV(Untag(Top(m)).b = 0))
    [] w = "equal?" -> LET m1 == Pop(m)  m2 == Pop(m1) IN
                       IF ~Ok(m2) THEN m2 ELSE Push(m2, BoolV(CellEq(Top(m), Top(m1))))
    [] w = "nil?"  -> LET m1 == Pop(m) IN IF ~Ok(m1) THEN m1 ELSE Push(m1, BoolV(Untag(Top(m)).ty = "nil"))
    [] w = "I"     -> Counter(m, 0)
    [] w = "J"     -> Counter(m, 1)
    [] w = "K"     -> Counter(m, 2)
    [] w = "print" -> LET m1 == Pop(m) IN IF ~Ok(m1) THEN m1 ELSE [m1 EXCEPT !.out = @ \o PrintSeq(Top(m))]
    [] w = "[b"    -> PushSpecial(m, Len(m.ds))        \* vec_builder_begin (run-time part of "[")
    [] w = "]e"    -> VecEnd(m)                        \* vec_builder_end
    [] w = "length" -> LET m1 == Pop(m) IN IF ~Ok(m1) THEN m1
                       ELSE IF Untag(Top(m)).ty = "vec" THEN Push(m1, IntV(Len(Untag(Top(m)).items)))
                       ELSE FailV(m1, "Type", Untag(Top(m)))
    [] w = "unbox" -> LET m1 == Pop(m) IN IF ~Ok(m1) THEN m1
                      ELSE IF Untag(Top(m)).ty = "vec" THEN PushAll(m1, Untag(Top(m)).items, 1)
                      ELSE FailV(m1, "Type", Untag(Top(m)))
    [] w = "collect" -> LET m1 == Pop(m) IN IF ~Ok(m1) THEN m1
                        ELSE IF Untag(Top(m)).ty # "int" THEN FailV(m1, "Type", Untag(Top(m)))
                        ELSE IF Untag(Top(m)).i < 0 THEN FailV(m1, "Type", Top(m))
                        ELSE LET n == Untag(Top(m)).i IN
                             IF n > Depth(m1) THEN Fail(m1, "Underflow")
                             ELSE Push(PopN(m1, n), VecV(SubSeq(m1.ds, Len(m1.ds) - n + 1, Len(m1.ds))))
    [] w = "foreach_init" ->       \* ( v -- v len 0 )
         IF Depth(m) < 1 THEN Fail(m, "Underflow")
         ELSE IF Untag(Top(m)).ty = "vec" THEN Push(Push(m, IntV(Len(Untag(Top(m)).items))), IntV(0))
         ELSE FailV(m, "Type", Untag(Top(m)))
    [] w = "foreach_next" ->       \* first iteration: move the collection into the loop entry
         IF ~HasLoop(m) THEN Fail(m, "LsUnderflow")
         ELSE IF Last(m.ls).s # 0 THEN m
         ELSE LET m1 == Pop(m) IN IF ~Ok(m1) THEN m1
              ELSE LET n == Len(m1.ls)  old == m1.ls[n]
                       m2 == [m1 EXCEPT !.ls[n].items = Top(m)] IN
                   IF "foreachlog" \in Legacy THEN m2 ELSE Log(m2, [k |-> "LoopNextBack", l |-> old])
    [] OTHER -> Fail(m, "Internal")

NativeNames == {"dup", "drop", "swap", "rot", "over", "depth", "+", "-", "*", "/", "rem", "<", ">", "==", "<>",
                "<=", ">=", "and", "or", "not", "equal?", "nil?", "I", "J", "K", "print", "length", "unbox", "collect"}

ImmediateNames == {"if", "else", "then", "case", "of", "endof", "endcase", "begin", "until", "while", "repeat",
                   "break", "do", "loop", "foreach", ":", ";", "local", "var", "!", "nil", "true", "false",
                   "[", "]", "#(", "#)", "~)", "const", "late"}

\* ------------------------------------------------------------------ fetch_and_run
Code(m)  == m.code[Ip(m) + 1]

DoInit(m) ==    \* pops start (top) then limit; both must be ints
  LET m1 == Pop(m)  m2 == Pop(m1) IN
  IF ~Ok(m2) THEN m2 ELSE
  IF Untag(Top(m)).ty # "int" THEN FailV(m2, "Type", Untag(Top(m)))
  ELSE IF Untag(Top(m1)).ty # "int" THEN FailV(m2, "Type", Untag(Top(m1))) ELSE m2

RECURSIVE Exec(_, _)
Exec(m0, resolved) ==
  IF m0.meter >= m0.ilim THEN Fail(m0, "Limit") ELSE
  LET m  == [m0 EXCEPT !.meter = @ + 1]
      ip == Ip(m)
      c  == Code(m) IN
  CASE c.op = "nop"    -> NextIp(m)
    [] c.op = "lit"    -> NextIp(Push(m, c.v))
    [] c.op = "native" -> NextIp(Native(m, c.w))
    [] c.op = "jump"   -> SetIp(m, ip + c.a)
    [] c.op = "jifn"   -> LET v == Pop(m) IN
                          IF ~Ok(v) THEN v
                          ELSE IF ~CondOk(Top(m)) THEN FailV(v, "Type", Top(m))
                          ELSE IF ~CondTrue(Top(m)) THEN SetIp(v, ip + c.a) ELSE NextIp(v)
    [] c.op = "jif"    -> LET v == Pop(m) IN
                          IF ~Ok(v) THEN v
                          ELSE IF ~CondOk(Top(m)) THEN FailV(v, "Type", Top(m))
                          ELSE IF CondTrue(Top(m)) THEN SetIp(v, ip + c.a) ELSE NextIp(v)
    [] c.op = "caseof" -> LET v == Pop(m) IN
                          IF ~Ok(v) THEN v
                          ELSE IF Depth(v) < 1 THEN Fail(v, "Underflow")
                          ELSE IF CellEq(Top(m), Top(v)) THEN NextIp(Pop(v)) ELSE SetIp(v, ip + c.a)
    [] c.op = "call"   -> SetIp(PushRet(m, [fn |-> c.a, ret |-> ip + 1, locals |-> <<>>]), c.a)
    [] c.op = "ret"    -> LET v == PopRet(m) IN IF ~Ok(v) THEN v ELSE SetIp(v, Last(m.rs).ret)
    [] c.op = "load"   -> IF ~HeapGetOk(m, c.a) THEN Fail(m, IF m.ctx.mode = "meta" THEN "Context" ELSE "Msg")
                          ELSE NextIp(Push(m, m.heap[c.a + 1]))
    [] c.op = "store"  -> LET v == Pop(m) IN IF ~Ok(v) THEN v ELSE NextIp(SwapRef(v, c.a, Top(m)))
    [] c.op = "initlocal" ->
         LET v == Pop(m) IN
         IF ~Ok(v) THEN v ELSE IF ~HasFrame(v) THEN Fail(v, "RsUnderflow") ELSE
         LET n == Len(v.rs)  f == v.rs[n]
             over == c.a < Len(f.locals)
             f2 == IF over THEN [f EXCEPT !.locals[c.a + 1] = Top(m)] ELSE [f EXCEPT !.locals = Append(@, Top(m))]
             inv == IF over /\ "droplocal" \notin Legacy
                    THEN [k |-> "SetLocal", idx |-> c.a, v |-> f.locals[c.a + 1]]
                    ELSE [k |-> "DropLocal"] IN
         NextIp(Log([v EXCEPT !.rs[n] = f2], inv))
    [] c.op = "loadlocal" ->
         IF ~HasFrame(m) THEN Fail(m, "RsUnderflow")
         ELSE IF c.a >= Len(Last(m.rs).locals) THEN Fail(m, "Local")
         ELSE NextIp(Push(m, Last(m.rs).locals[c.a + 1]))
    [] c.op = "do"     -> LET v == DoInit(m) IN
                          IF ~Ok(v) THEN v
                          ELSE LET start == Untag(Top(m)).i  limit == Untag(m.ds[Len(m.ds) - 1]).i IN
                               IF start >= limit THEN SetIp(v, ip + c.a)
                               ELSE NextIp(PushLoop(v, [s |-> start, e |-> limit, items |-> NilV]))
    [] c.op = "loop"   -> IF ~HasLoop(m) THEN Fail(m, "LsUnderflow")
                          ELSE LET n == Len(m.ls)  old == m.ls[n]
                                   v == Log([m EXCEPT !.ls[n].s = @ + 1], [k |-> "LoopNextBack", l |-> old]) IN
                               IF old.s + 1 < old.e THEN SetIp(v, ip + c.a) ELSE NextIp(PopLoop(v))
    [] c.op = "break"  -> SetIp(PopLoop(m), ip + c.a)
    [] c.op = "resolve" ->      \* patches the code in place, then runs the patched instruction (metered again)
         IF resolved THEN Fail(m, "Internal") ELSE
         LET idx == {i \in 1..Len(m.dict) : m.dict[i].name = c.w} IN
         IF idx = {} THEN
              (IF c.w \in NativeNames THEN Exec([m EXCEPT !.code[ip + 1] = OpNat(c.w)], TRUE) ELSE Fail(m, "Unknown"))
         ELSE LET e == m.dict[CHOOSE i \in idx : \A j \in idx : j <= i]
                  op == CASE e.k = "const" -> OpLit(e.v)
                          [] e.k = "var"   -> Op("load", e.a)
                          [] e.k = "fn"    -> Op("call", e.a) IN
              Exec([m EXCEPT !.code[ip + 1] = op], TRUE)

Step(m) == Exec(m, FALSE)

\* run(): loop of fetch_and_run; the error location is the debug-map entry at the failing ip
RECURSIVE Run(_)
Run(m) == IF ~Ok(m) \/ ~Running(m) THEN m
          ELSE LET n == Step(m) IN
               IF Ok(n) THEN Run(n)
               ELSE [n EXCEPT !.errtok = IF Ip(n) < Len(n.dbg) THEN n.dbg[Ip(n) + 1] ELSE 0, !.rf = TRUE]

\* ------------------------------------------------------------------ reverse step
Undo(m, e) ==
  CASE e.k = "SetIp"      -> [m EXCEPT !.ctx.ip = e.ip]
    [] e.k = "PopData"    -> IF Depth(m) < 1 THEN Fail(m, "Underflow") ELSE [m EXCEPT !.ds = Front(@)]
    [] e.k = "PushData"   -> [m EXCEPT !.ds = Append(@, e.v)]
    [] e.k = "SwapData"   -> LET n == Len(m.ds) IN [m EXCEPT !.ds = [@ EXCEPT ![n] = m.ds[n - 1], ![n - 1] = m.ds[n]]]
    [] e.k = "RotData"    -> LET n == Len(m.ds) IN [m EXCEPT !.ds = [@ EXCEPT ![n] = m.ds[n - 2], ![n - 2] = m.ds[n]]]
    [] e.k = "OverData"   -> \* the code calls drop_data(), which itself logs PushData while recording
                             [m EXCEPT !.ds = Front(@), !.rlog = Append(@, [k |-> "PushData", v |-> Last(m.ds)])]
    [] e.k = "PopReturn"  -> [m EXCEPT !.rs = Front(@)]
    [] e.k = "PushReturn" -> [m EXCEPT !.rs = Append(@, e.f)]
    [] e.k = "PopLoop"    -> [m EXCEPT !.ls = Front(@)]
    [] e.k = "PushLoop"   -> [m EXCEPT !.ls = Append(@, e.l)]
    [] e.k = "LoopNextBack" -> [m EXCEPT !.ls[Len(m.ls)] = e.l]
    [] e.k = "PopSpecial" -> [m EXCEPT !.ss = Front(@)]
    [] e.k = "PushSpecial" -> [m EXCEPT !.ss = Append(@, e.p)]
    [] e.k = "DropLocal"  -> [m EXCEPT !.rs[Len(m.rs)].locals = Front(@)]
    [] e.k = "SetLocal"   -> [m EXCEPT !.rs[Len(m.rs)].locals[e.idx + 1] = e.v]
    [] e.k = "SwapRef"    -> [m EXCEPT !.heap[e.a + 1] = e.v]

RECURSIVE UndoToSetIp(_)
UndoToSetIp(m) == IF m.rlog = <<>> \/ Last(m.rlog).k = "SetIp" \/ ~Ok(m) THEN m
                  ELSE LET e == Last(m.rlog) IN UndoToSetIp(Undo([m EXCEPT !.rlog = Front(@)], e))
RNext(m) == IF m.rlog = <<>> THEN m
            ELSE LET e == Last(m.rlog) IN UndoToSetIp(Undo([m EXCEPT !.rlog = Front(@), !.err = "none", !.errv = NilV], e))

\* ------------------------------------------------------------------ compiler
Origin(m)   == Len(m.code)
Emit(m, o)  == IF ~Ok(m) THEN m ELSE [m EXCEPT !.code = Append(@, o), !.dbg = Append(@, m.lasttok)]
Patch(m, at, o) == IF ~Ok(m) THEN m ELSE [m EXCEPT !.code[at + 1] = o]
PatchJump(m, at, rel) == IF ~Ok(m) THEN m ELSE [m EXCEPT !.code[at + 1].a = rel]
PushFlow(m, f) == IF ~Ok(m) THEN m ELSE [m EXCEPT !.fs = Append(@, f)]
Pending(m)  == Len(m.fs) > m.ctx.fs_len
TopFlow(m)  == Last(m.fs)
PopFlow(m)  == [m EXCEPT !.fs = Front(@)]
Fl(k, org)  == [k |-> k, org |-> org, org2 |-> 0, dict_idx |-> 0, locals |-> <<>>]

\* take_first_cond_flow: nearest If/Else/Case/CaseOf/CaseEndOf, looking through Break entries only
CondKinds == {"if", "else", "case", "of", "endof"}
RECURSIVE FirstCond(_, _)
FirstCond(m, i) == IF i <= m.ctx.fs_len THEN 0
                   ELSE IF m.fs[i].k \in CondKinds THEN i
                   ELSE IF m.fs[i].k = "break" THEN FirstCond(m, i - 1) ELSE 0
RemoveAt(s, i) == SubSeq(s, 1, i - 1) \o SubSeq(s, i + 1, Len(s))

\* innermost function flow of the current context (top_function_flow)
FunIdx(m) == LET idx == {i \in (m.ctx.fs_len + 1)..Len(m.fs) : m.fs[i].k = "fun"} IN
             IF idx = {} THEN 0 ELSE CHOOSE i \in idx : \A j \in idx : j <= i
RPos(s, x) == LET idx == {i \in 1..Len(s) : s[i] = x} IN IF idx = {} THEN 0 ELSE CHOOSE i \in idx : \A j \in idx : j <= i

DictPos(m, name) == LET idx == {i \in 1..Len(m.dict) : m.dict[i].name = name} IN
                    IF idx = {} THEN 0 ELSE CHOOSE i \in idx : \A j \in idx : j <= i
DEntry(name, k, a, v) == [name |-> name, k |-> k, a |-> a, v |-> v, imm |-> FALSE]

\* next_token over the stack of pending sources: an exhausted source is popped and the one
\* beneath it continues.  Returns the token or an end-of-input marker; lasttok follows the code.
RECURSIVE DropExhausted(_)
DropExhausted(m) == IF m.input # <<>> /\ Last(m.input).toks = <<>>
                    THEN DropExhausted([m EXCEPT !.input = Front(@), !.lasttok = Last(m.input).eof])
                    ELSE m
AtEnd(m)   == DropExhausted(m).input = <<>>
PeekTok(m) == Head(Last(DropExhausted(m).input).toks)
TakeTok(m) == LET x == DropExhausted(m) IN
              [x EXCEPT !.input[Len(x.input)].toks = Tail(@), !.lasttok = Head(Last(x.input).toks).id]

\* next_name: a word token, else ExpectingName with the marker moved back to the previous token
NameOk(m)  == ~AtEnd(m) /\ PeekTok(m).t = "w"
TakeName(m) == IF NameOk(m) THEN TakeTok(m)
               ELSE LET x == IF AtEnd(m) THEN DropExhausted(m) ELSE TakeTok(m) IN
                    Fail([x EXCEPT !.lasttok = IF m.lasttok # 0 THEN m.lasttok ELSE x.lasttok], "Name")

\* context_open / context_close
Open(m, mode) ==
  LET c == [ ds_len |-> IF m.ctx.mode = mode THEN m.ctx.ds_len ELSE Len(m.ds),
             cs_len |-> Len(m.code), rs_len |-> Len(m.rs), fs_len |-> Len(m.fs), ls_len |-> Len(m.ls),
             ss_ptr |-> Len(m.ss), di_len |-> Len(m.dict), ip |-> Len(m.code), mode |-> mode ] IN
  [m EXCEPT !.nested = Append(@, m.ctx), !.ctx = c]

\* purge of non-constant entries with Vec::swap_remove semantics
RECURSIVE Purge(_, _)
Purge(d, i) == IF i > Len(d) THEN d
               ELSE IF d[i].k = "const" THEN Purge(d, i + 1)
               ELSE Purge(IF i = Len(d) THEN Front(d) ELSE [Front(d) EXCEPT ![i] = Last(d)], i)

RECURSIVE EmitResults(_)
EmitResults(m) == IF ~Ok(m) \/ Len(m.ds) <= m.ctx.ds_len THEN m
                  ELSE EmitResults(Emit(Pop(m), OpLit(Top(m))))

Close(m0) ==
  IF ~Ok(m0) THEN m0 ELSE
  IF m0.nested = <<>> THEN Fail(m0, "Context") ELSE
  LET prev == Last(m0.nested)
      m    == [m0 EXCEPT !.nested = Front(@)] IN         \* popped BEFORE running, as in the code
  CASE m.ctx.mode = "eval" ->
         LET r == Run(m) IN
         IF ~Ok(r) THEN r
         ELSE [r EXCEPT !.ctx = IF prev.mode = "eval" THEN [prev EXCEPT !.ip = r.ctx.ip] ELSE prev]
    [] m.ctx.mode = "meta" ->
         LET r == Run(m) IN
         IF ~Ok(r) THEN r ELSE
         LET t == [r EXCEPT !.code = Take(@, r.ctx.cs_len), !.dbg = Take(@, r.ctx.cs_len),
                            !.dict = Purge(@, r.ctx.di_len + 1)]
             buildingFun == Len(t.fs) > prev.fs_len /\ Last(t.fs).k = "fun"
             e == IF prev.mode # "meta" \/ buildingFun THEN EmitResults(t) ELSE t IN
         IF ~Ok(e) THEN e ELSE [e EXCEPT !.ctx = prev]
    [] m.ctx.mode = "compile" -> [m EXCEPT !.ctx = prev]

\* ---- immediate words
LoopKinds == {"begin", "while", "do"}

RECURSIVE EndCase(_, _)
EndCase(m, org) ==
  LET i == FirstCond(m, Len(m.fs)) IN
  IF i = 0 THEN Fail(m, "ControlFlow")
  ELSE LET f == m.fs[i]  m1 == [m EXCEPT !.fs = RemoveAt(@, i)] IN
       IF f.k = "endof" THEN EndCase(PatchJump(m1, f.org, Rel(f.org, org)), org)
       ELSE IF f.k = "case" THEN m1 ELSE Fail(m1, "ControlFlow")

RECURSIVE Repeat(_)
Repeat(m) ==
  IF ~Pending(m) THEN Fail(m, "ControlFlow") ELSE
  LET f == TopFlow(m)  m1 == PopFlow(m) IN
  CASE f.k = "break" -> Repeat(PatchJump(m1, f.org, Rel(f.org, Origin(m1) + 1)))
    [] f.k = "begin" -> Emit(m1, Op("jump", Rel(Origin(m1), f.org)))
    [] f.k = "while" -> IF Pending(m1) /\ TopFlow(m1).k = "begin"
                        THEN LET b == TopFlow(m1)  m2 == PopFlow(m1) IN
                             Emit(PatchJump(m2, f.org, Rel(f.org, Origin(m2) + 1)), Op("jump", Rel(Origin(m2), b.org)))
                        ELSE Fail(IF Pending(m1) THEN PopFlow(m1) ELSE m1, "ControlFlow")
    [] OTHER -> Fail(m1, "ControlFlow")

RECURSIVE LoopEnd(_, _, _)
LoopEnd(m, loopOrg, stopOrg) ==
  IF ~Pending(m) THEN Fail(m, "ControlFlow") ELSE
  LET f == TopFlow(m)  m1 == PopFlow(m) IN
  CASE f.k = "break" -> LoopEnd(Patch(m1, f.org, Op("break", Rel(f.org, stopOrg))), loopOrg, stopOrg)
    [] f.k = "do"    -> Patch(Patch(m1, f.org, Op("do", Rel(f.org, stopOrg))), loopOrg, Op("loop", Rel(loopOrg, f.org2)))
    [] OTHER -> Fail(m1, "ControlFlow")

DoWord(m) == LET m1 == Emit(m, Op("do", 0)) IN
             PushFlow(m1, [Fl("do", Origin(m)) EXCEPT !.org2 = Origin(m1)])

DefBegin(m0) ==
  LET m == TakeName(m0) IN IF ~Ok(m) THEN m ELSE
  LET name == PeekTok(m0).s
      start == Origin(m)
      m1 == Emit(m, Op("jump", 0))
      m2 == [m1 EXCEPT !.dict = Append(@, DEntry(name, "fn", Origin(m1), NilV))] IN
  PushFlow(m2, [Fl("fun", start) EXCEPT !.dict_idx = Len(m2.dict)])

DefEnd(m) ==
  IF ~Pending(m) THEN Fail(m, "ControlFlow") ELSE
  LET f == TopFlow(m)  m1 == PopFlow(m) IN
  IF f.k # "fun" THEN Fail(m1, "ControlFlow")
  ELSE LET m2 == Emit(m1, Op("ret", 0)) IN PatchJump(m2, f.org, Rel(f.org, Origin(m2)))

LocalWord(m0) ==
  LET m == TakeName(m0) IN IF ~Ok(m) THEN m ELSE
  LET fi == FunIdx(m) IN
  IF fi = 0 THEN Fail(m, "ControlFlow")
  ELSE Emit([m EXCEPT !.fs[fi].locals = Append(@, PeekTok(m0).s)], Op("initlocal", Len(m.fs[fi].locals)))

\* `var`: allowed only while the GLOBAL flow stack is empty
VarWord(m0) ==
  LET m == TakeName(m0) IN IF ~Ok(m) THEN m ELSE
  IF m.fs # <<>> THEN Fail(m, "ControlFlow") ELSE
  LET m1 == AllocHeap(m, NilV) IN IF ~Ok(m1) THEN m1 ELSE
  Emit([m1 EXCEPT !.dict = Append(@, DEntry(PeekTok(m0).s, "var", Len(m1.heap) - 1, NilV))], Op("store", Len(m1.heap) - 1))

SetVarWord(m0) ==
  LET m == TakeName(m0) IN IF ~Ok(m) THEN m ELSE
  LET p == DictPos(m, PeekTok(m0).s) IN
  IF p = 0 THEN Fail(m, IF PeekTok(m0).s \in NativeNames \cup ImmediateNames THEN "Msg" ELSE "Unknown")
  ELSE IF m.dict[p].k = "var" THEN Emit(m, Op("store", m.dict[p].a)) ELSE Fail(m, "Msg")

ConstWord(m0) ==
  LET m == TakeName(m0) IN IF ~Ok(m) THEN m ELSE
  IF m.ctx.mode # "meta" THEN Fail(m, "Msg") ELSE
  LET m1 == Pop(m) IN IF ~Ok(m1) THEN m1 ELSE
  LET name == PeekTok(m0).s  p == DictPos(m1, name) IN
  IF p # 0 THEN (IF m1.dict[p].k = "const" THEN [m1 EXCEPT !.dict[p].v = Top(m)] ELSE Fail(m1, "Context"))
  ELSE [m1 EXCEPT !.dict = Append(@, DEntry(name, "const", 0, Top(m)))]

LateWord(m0) ==
  LET j == Origin(m0)
      m1 == Emit(m0, Op("jump", 0))
      m == TakeName(m1) IN IF ~Ok(m) THEN m ELSE
  LET name == PeekTok(m1).s
      start == Origin(m)
      m2 == Emit(Emit(m, OpRes(name)), Op("ret", 0))
      m3 == PatchJump(m2, j, Rel(j, Origin(m2))) IN
  [m3 EXCEPT !.dict = Append(@, DEntry(name, "fn", start, NilV))]

\* intern_source: a new source on top of the input stack
Intern(m, toks) == [m EXCEPT !.input = Append(@, [toks |-> toks, eof |-> (m.srcs + 1) * 1000]), !.srcs = @ + 1]

\* `~)`: the values the block has produced are joined into a text (strings as they are, other cells as printed), the
\* block is closed WITHOUT emitting them, and the text becomes a new source on top of the input stack: the tokens that
\* follow `~)` in the enclosing source are read after it.  The text -> tokens step of the lexer is a table here
\* (KnownSources): the model knows the few texts its scenarios inject.
KnownSources ==
  [t \in {"7 foo", "1 then 2", ": zz 1", "1 2", "drop"} |->
     CASE t = "7 foo"    -> <<TLit(IntV(7), 0), TWord("foo", 0)>>
       [] t = "1 then 2" -> <<TLit(IntV(1), 0), TWord("then", 0), TLit(IntV(2), 0)>>
       [] t = ": zz 1"   -> <<TWord(":", 0), TWord("zz", 0), TLit(IntV(1), 0)>>
       [] t = "1 2"      -> <<TLit(IntV(1), 0), TLit(IntV(2), 0)>>
       [] t = "drop"     -> <<TWord("drop", 0)>>]
RECURSIVE InjectToks(_)
InjectToks(vals) ==
  IF vals = <<>> THEN <<>>
  ELSE LET v == Untag(Head(vals)) IN
       (CASE v.ty = "int" -> <<TLit(v, 0)>>
          [] v.ty = "str" /\ v.s \in DOMAIN KnownSources -> KnownSources[v.s]
          [] OTHER -> <<TBad("?", 0)>>) \o InjectToks(Tail(vals))
InjectWord(m) ==
  IF m.ctx.mode # "meta" THEN Fail(m, "Context")
  ELSE IF Pending(m) THEN Fail(m, "ControlFlow")
  ELSE LET vals == SubSeq(m.ds, m.ctx.ds_len + 1, Len(m.ds))
           m1 == [m EXCEPT !.ds = Take(@, m.ctx.ds_len)]
           m2 == Close(m1) IN
       IF ~Ok(m2) THEN m2
       ELSE LET toks == InjectToks(vals) IN
            Intern(m2, [p \in 1..Len(toks) |-> [toks[p] EXCEPT !.id = (m2.srcs + 1) * 1000 + p]])

NestedEnd(m) ==
  IF m.ctx.mode # "meta" THEN Fail(m, "Context")
  ELSE IF Pending(m) THEN Fail(m, "ControlFlow") ELSE Close(m)

Immediate(m, w) ==
  CASE w = "if"    -> Emit(PushFlow(m, Fl("if", Origin(m))), Op("jifn", 0))
    [] w = "else"  -> LET i == FirstCond(m, Len(m.fs)) IN
                      IF i = 0 THEN Fail(m, "ControlFlow")
                      ELSE IF m.fs[i].k # "if" THEN Fail([m EXCEPT !.fs = RemoveAt(@, i)], "ControlFlow")
                      ELSE LET org == m.fs[i].org
                               m1 == [m EXCEPT !.fs = Append(RemoveAt(@, i), Fl("else", Origin(m)))]
                               m2 == Emit(m1, Op("jump", 0)) IN
                           PatchJump(m2, org, Rel(org, Origin(m2)))
    [] w = "then"  -> LET i == FirstCond(m, Len(m.fs)) IN
                      IF i = 0 THEN Fail(m, "ControlFlow")
                      ELSE IF m.fs[i].k \notin {"if", "else"} THEN Fail([m EXCEPT !.fs = RemoveAt(@, i)], "ControlFlow")
                      ELSE PatchJump([m EXCEPT !.fs = RemoveAt(@, i)], m.fs[i].org, Rel(m.fs[i].org, Origin(m)))
    [] w = "case"  -> PushFlow(m, Fl("case", 0))
    [] w = "of"    -> Emit(PushFlow(m, Fl("of", Origin(m))), Op("caseof", 0))
    [] w = "endof" -> LET i == FirstCond(m, Len(m.fs)) IN
                      IF i = 0 THEN Fail(m, "ControlFlow")
                      ELSE IF m.fs[i].k # "of" THEN Fail([m EXCEPT !.fs = RemoveAt(@, i)], "ControlFlow")
                      ELSE LET org == m.fs[i].org
                               m1 == [m EXCEPT !.fs = RemoveAt(@, i)]
                               m2 == Emit(m1, Op("jump", 0)) IN
                           PushFlow(PatchJump(m2, org, Rel(org, Origin(m2))), Fl("endof", Origin(m1)))
    [] w = "endcase" -> EndCase(m, Origin(m))
    [] w = "begin" -> PushFlow(m, Fl("begin", Origin(m)))
    [] w = "until" -> IF Pending(m) /\ TopFlow(m).k = "begin"
                      THEN Emit(PopFlow(m), Op("jifn", Rel(Origin(m), TopFlow(m).org)))
                      ELSE Fail(IF Pending(m) THEN PopFlow(m) ELSE m, "ControlFlow")
    [] w = "while" -> PushFlow(Emit(m, Op("jifn", 0)), Fl("while", Origin(m)))
    [] w = "repeat" -> Repeat(m)
    [] w = "break" -> IF \E i \in (m.ctx.fs_len + 1)..Len(m.fs) : m.fs[i].k \in LoopKinds
                      THEN PushFlow(Emit(m, Op("jump", 0)), Fl("break", Origin(m)))
                      ELSE Fail(m, "ControlFlow")
    [] w = "do"    -> DoWord(m)
    [] w = "loop"  -> LET m1 == Emit(m, Op("loop", 0)) IN LoopEnd(m1, Origin(m), Origin(m1))
    [] w = "foreach" -> Emit(DoWord(Emit(m, OpNat("foreach_init"))), OpNat("foreach_next"))
    [] w = ":"     -> DefBegin(m)
    [] w = ";"     -> DefEnd(m)
    [] w = "local" -> LocalWord(m)
    [] w = "var"   -> VarWord(m)
    [] w = "!"     -> SetVarWord(m)
    [] w = "nil"   -> Emit(m, OpLit(NilV))
    [] w = "true"  -> Emit(m, OpLit(TrueV))          \* dictionary constants of the core
    [] w = "false" -> Emit(m, OpLit(FalseV))
    [] w = "["     -> Emit(PushFlow(m, Fl("vec", 0)), OpNat("[b"))
    [] w = "]"     -> IF Pending(m) /\ TopFlow(m).k = "vec" THEN Emit(PopFlow(m), OpNat("]e"))
                      ELSE Fail(IF Pending(m) THEN PopFlow(m) ELSE m, "ControlFlow")
    [] w = "#("    -> Open(m, "meta")
    [] w = "#)"    -> NestedEnd(m)
    [] w = "~)"    -> InjectWord(m)
    [] w = "const" -> ConstWord(m)
    [] w = "late"  -> LateWord(m)

\* build_word / the Tok::Word arm of build1
BuildWord(m, name) ==
  LET fi == FunIdx(m)
      li == IF fi = 0 THEN 0 ELSE RPos(m.fs[fi].locals, name) IN
  IF li # 0 THEN Emit(m, Op("loadlocal", li - 1)) ELSE
  LET p == DictPos(m, name) IN
  IF p # 0 THEN
       LET e == m.dict[p] IN
       CASE e.k = "const" -> Emit(m, OpLit(e.v))
         [] e.k = "var"   -> Emit(m, Op("load", e.a))
         [] e.k = "fn"    -> Emit(m, Op("call", e.a))
  ELSE IF name \in ImmediateNames THEN Immediate(m, name)
  ELSE IF name \in NativeNames THEN Emit(m, OpNat(name))
  ELSE Fail(m, "Unknown")

\* build1: the loop over tokens (meta mode runs what has been compiled before each token)
RECURSIVE Build(_, _)
Build(m0, depth0) ==
  IF ~Ok(m0) THEN m0 ELSE
  LET m1 == IF m0.ctx.mode = "meta" /\ ~Pending(m0) THEN Run(m0) ELSE m0 IN
  IF ~Ok(m1) THEN m1 ELSE
  IF AtEnd(m1) THEN
       LET m == DropExhausted(m1) IN
       IF Len(m.nested) # depth0 THEN Fail(m, "Context")
       ELSE IF Pending(m) THEN Fail(m, "ControlFlow") ELSE m
  ELSE LET tok == PeekTok(m1)  m == TakeTok(m1) IN
       Build(IF tok.t = "lit" THEN Emit(m, OpLit(tok.v))
             ELSE IF tok.t = "bad" THEN Fail(m, "Parse")          \* the lexer rejects the text of this token
             ELSE BuildWord(m, tok.s), depth0)

\* build0: a build-time error is located at the last token fetched
Build0(m, depth0) == LET r == Build([m EXCEPT !.errtok = 0], depth0) IN
                     IF Ok(r) \/ r.errtok # 0 THEN r ELSE [r EXCEPT !.errtok = r.lasttok]

\* build_from_source: open context, intern the source, build, close (the early return on
\* error skips the close in the pinned commit; see Interp.tla for the repaired submit)

\* The pinned commit's build_from_source (kept for the regression configurations): the early
\* return on error skips context_close, leaves the lexer with its unread text, the flow stack
\* and the half-compiled code in place.
SubmitLegacy(m0, toks, mode) ==
  LET a == Open([m0 EXCEPT !.err = "none", !.errv = NilV, !.errtok = 0], mode)
      b == Intern(a, toks)
      c == Build0(b, Len(b.nested)) IN
  IF Ok(c) THEN Close(c) ELSE c

\* build_from (repaired): marks are taken at entry.
\*  - a source rejected while it is read or compiled (including an error inside a meta block) is
\*    unwound completely: pending input, contexts, flow stack, code, debug map, dictionary, heap,
\*    the stacks and the reverse log go back to the marks -- as if it had never been submitted;
\*  - a source that fails at run time keeps what it did, but mode and nesting go back and the
\*    rest of its code is never executed (ip moves past the code);
\*  - code whose run()/next() stopped on an error is abandoned by the next submission.
Mark(m) == [ctx |-> m.ctx, nested |-> Len(m.nested), input |-> Len(m.input), cs |-> Len(m.code), fs |-> Len(m.fs),
            rs |-> Len(m.rs), ls |-> Len(m.ls), ss |-> Len(m.ss), di |-> Len(m.dict), heap |-> Len(m.heap),
            ds |-> Len(m.ds), rl |-> Len(m.rlog)]
\*    ... together with the call frames, loop entries and builder marks it left behind (Legacy "stalectl": they stayed,
\*    visible to a later compile + run but hidden from a later eval by its context).
UnwindRun(m, k) == [m EXCEPT !.input = Take(@, k.input), !.nested = Take(@, k.nested), !.fs = Take(@, k.fs),
                             !.ctx = [k.ctx EXCEPT !.ip = Len(m.code)], !.rf = ("stalectl" \notin Legacy)]
UnwindBuild(m, k) == [UnwindRun(m, k) EXCEPT !.rf = FALSE, !.ctx = k.ctx, !.code = Take(@, k.cs), !.dbg = Take(@, k.cs),
                             !.rs = Take(@, k.rs), !.ls = Take(@, k.ls), !.ss = Take(@, k.ss),
                             !.dict = Take(@, k.di), !.heap = Take(@, k.heap), !.ds = Take(@, k.ds),
                             !.rlog = Take(@, k.rl)]
Submit(m00, toks, mode) ==
  IF "nounwind" \in Legacy THEN SubmitLegacy(m00, toks, mode) ELSE
  LET m0 == IF ~m00.rf THEN m00
            ELSE IF "stalectl" \in Legacy THEN [m00 EXCEPT !.rf = FALSE, !.ctx.ip = Len(m00.code)]
            ELSE [m00 EXCEPT !.rf = FALSE, !.ctx.ip = Len(m00.code), !.rs = Take(@, m00.ctx.rs_len),
                             !.ls = Take(@, m00.ctx.ls_len), !.ss = Take(@, m00.ctx.ss_ptr)]
      k == Mark(m0)
      a == Open([m0 EXCEPT !.err = "none", !.errv = NilV, !.errtok = 0], mode)
      b == Intern(a, toks)
      c == Build0(b, Len(b.nested)) IN
  IF ~Ok(c) THEN UnwindBuild(c, k)
  ELSE LET d == Close(c) IN IF Ok(d) THEN d ELSE UnwindRun(d, k)

\* Xstate::run / Xstate::next as API calls
RunApi(m)  == LET r == Run([m EXCEPT !.err = "none", !.errv = NilV, !.errtok = 0, !.rf = FALSE]) IN
              IF Ok(r) THEN r ELSE [r EXCEPT !.rf = TRUE]
NextApi(m) == IF ~Running(m) THEN [m EXCEPT !.err = "none"]
              ELSE LET r == Step([m EXCEPT !.err = "none", !.errv = NilV, !.errtok = 0, !.rf = FALSE]) IN
                   IF Ok(r) THEN r ELSE [r EXCEPT !.rf = TRUE, !.errtok = IF Ip(r) < Len(r.dbg) THEN r.dbg[Ip(r) + 1] ELSE 0]

\* token ids: source k (1-based), position p  ->  k * 1000 + p ; end of source k -> k * 1000
Label(toks, k) == [p \in 1..Len(toks) |-> [toks[p] EXCEPT !.id = k * 1000 + p]]

Visible(m) == SubSeq(m.ds, m.ctx.ds_len + 1, Len(m.ds))
=============================================================================
