-------------------------------- MODULE Lexer --------------------------------
(***************************************************************************)
(* The xeh lexer (src/lex.rs) over an alphabet of character classes.  A     *)
(* text is a sequence of class names; every class has concrete              *)
(* representatives in the harness (several of them multi-byte).             *)
(*                                                                          *)
(*   sp nl        ASCII whitespace (space / line feed)                       *)
(*   d0 d1 d7     the digits 0, 1, 7        hx b   hex letters f, b          *)
(*   x            the letter x (radix marker, bit 1 in bit-string literals)  *)
(*   us dot mi pl _ . - +                   dq lq rq  " and the curly quotes  *)
(*   bs bar lp rp \ | ( )                   al n   other letters (q, n)       *)
(*   mb           a multi-byte character                                     *)
(*                                                                          *)
(* Tok(t, p) is the token starting at position p (1-based):                  *)
(*   [k, e, err, den]   kind, end (last position consumed), error, denotation *)
(***************************************************************************)
EXTENDS Naturals, Integers, Sequences, TLC

Classes == {"sp", "nl", "d0", "d1", "d7", "hx", "b", "x", "us", "dot", "mi", "pl", "dq", "lq", "rq", "bs", "bar", "lp", "rp", "al", "n", "mb"}
Ws      == {"sp", "nl"}
Digits  == {"d0", "d1", "d7"}
At(t, i) == IF i >= 1 /\ i <= Len(t) THEN t[i] ELSE "eof"
IsWs(c) == c \in Ws
WsOrEof(c) == c \in Ws \/ c = "eof"

T(k, e, err, den) == [k |-> k, e |-> e, err |-> err, den |-> den]
NoDen == <<>>

RECURSIVE WsEnd(_, _)
WsEnd(t, i) == IF IsWs(At(t, i + 1)) THEN WsEnd(t, i + 1) ELSE i

\* ---- string literal: p is the opening quote
RECURSIVE StrBody(_, _, _, _)
StrBody(t, p, i, acc) ==         \* i: next position to read
  LET c == At(t, i) IN
  IF c = "eof" THEN T("error", Len(t), "unterminated-string", NoDen)
  ELSE IF c = "bs" THEN
       LET c2 == At(t, i + 1) IN
       IF c2 = "eof" THEN T("error", Len(t), "unterminated-string", NoDen)
       ELSE IF c2 = "bs" THEN StrBody(t, p, i + 2, Append(acc, "bs"))
       ELSE IF c2 = "dq" THEN StrBody(t, p, i + 2, Append(acc, "dq"))
       ELSE IF c2 = "n" THEN StrBody(t, p, i + 2, Append(acc, "nl"))
       ELSE T("error", i + 1, "escape", NoDen)
  ELSE IF c \in {"dq", "rq"} THEN
       (IF WsOrEof(At(t, i + 1)) THEN T("str", i, "", acc) ELSE T("error", i, "expect-ws", NoDen))
  ELSE StrBody(t, p, i + 1, Append(acc, c))

\* ---- bit-string literal
RECURSIVE BitsBody(_, _, _)
Nib(c) == CASE c = "d0" -> <<0,0,0,0>> [] c = "d1" -> <<0,0,0,1>> [] c = "d7" -> <<0,1,1,1>> [] c = "hx" -> <<1,1,1,1>> [] c = "b" -> <<1,0,1,1>>
BitsBody(t, i, acc) ==
  LET c == At(t, i) IN
  IF c = "eof" THEN T("error", Len(t), "unterminated-bitstr", NoDen)
  ELSE IF c \in {"d0", "d1", "d7", "hx", "b"} THEN BitsBody(t, i + 1, acc \o Nib(c))
  ELSE IF IsWs(c) THEN BitsBody(t, i + 1, acc)
  ELSE IF c = "dot" THEN BitsBody(t, i + 1, Append(acc, 0))
  ELSE IF c = "x" THEN BitsBody(t, i + 1, Append(acc, 1))
  ELSE IF c = "bar" THEN T("bits", i, "", acc)
  ELSE T("error", i, "bitstr", NoDen)

\* ---- words and numbers
RECURSIVE SegEnd(_, _)
SegEnd(t, i) == IF WsOrEof(At(t, i + 1)) THEN i ELSE SegEnd(t, i + 1)         \* last position of the run of non-whitespace starting at i
RECURSIVE LineEnd(_, _)
LineEnd(t, i) == IF At(t, i + 1) \in {"nl", "eof"} THEN i ELSE LineEnd(t, i + 1)

\* multi-line comment  \( ... \)  : closes on whitespace \ ) followed by whitespace or end of input
RECURSIVE MlBody(_, _)
MlBody(t, i) ==       \* i: next position to read
  LET c == At(t, i) IN
  IF c = "eof" THEN T("error", Len(t), "unterminated-comment", NoDen)
  ELSE IF ~IsWs(c) THEN MlBody(t, i + 1)
  ELSE IF At(t, i + 1) # "bs" THEN MlBody(t, i + 1)
  ELSE IF At(t, i + 2) # "rp" THEN MlBody(t, i + 2)
  ELSE IF WsOrEof(At(t, i + 3)) THEN T("comment", IF At(t, i + 3) = "eof" THEN i + 2 ELSE i + 3, "", NoDen)
  ELSE MlBody(t, i + 3)

DigVal(c) == CASE c = "d0" -> 0 [] c = "d1" -> 1 [] c = "d7" -> 7 [] c = "hx" -> 15 [] c = "b" -> 11
ValidDigit(c, r) == IF r = 2 THEN c \in {"d0", "d1"} ELSE IF r = 10 THEN c \in Digits ELSE c \in {"d0", "d1", "d7", "hx", "b"}
NoUs(s) == SelectSeq(s, LAMBDA c : c # "us")
RECURSIVE NatOf(_, _)
NatOf(ds, r) == IF ds = <<>> THEN 0 ELSE NatOf(SubSeq(ds, 1, Len(ds) - 1), r) * r + DigVal(ds[Len(ds)])

Number(t, p) ==
  LET e      == SegEnd(t, p)
      signed == t[p] \in {"mi", "pl"}
      first  == IF signed THEN p + 1 ELSE p                      \* position of the first digit
      pre0   == t[first] = "d0"
      marker == IF pre0 /\ At(t, first + 1) = "b" THEN 2 ELSE IF pre0 /\ At(t, first + 1) = "x" THEN 16 ELSE 0
      body   == IF marker # 0 THEN NoUs(SubSeq(t, first + 2, e)) ELSE <<t[first]>> \o NoUs(SubSeq(t, first + 1, e))
      hasDot == \E i \in (first + 1)..e : t[i] = "dot"
      radix  == IF marker # 0 THEN marker ELSE IF pre0 THEN 16 ELSE 10
      neg    == t[p] = "mi" IN
  IF hasDot THEN
       (IF marker # 0 THEN T("error", e, "float", NoDen)
        ELSE IF Len(SelectSeq(body, LAMBDA c : c = "dot")) = 1 /\ \A i \in 1..Len(body) : body[i] \in Digits \cup {"dot"}
             THEN T("real", e, "", NoDen) ELSE T("error", e, "float", NoDen))
  ELSE IF body # <<>> /\ \A i \in 1..Len(body) : ValidDigit(body[i], radix)
       THEN T("int", e, "", <<IF neg THEN -NatOf(body, radix) ELSE NatOf(body, radix)>>)
       ELSE T("error", e, "int", NoDen)

Tok(t, p) ==
  LET c == At(t, p) IN
  IF c = "eof" THEN T("eof", p - 1, "", NoDen)
  ELSE IF IsWs(c) THEN T("ws", WsEnd(t, p), "", NoDen)
  ELSE IF c \in {"dq", "lq"} THEN StrBody(t, p, p + 1, <<>>)
  ELSE IF c = "bar" THEN BitsBody(t, p + 1, <<>>)
  ELSE IF c \in Digits \/ (c \in {"mi", "pl"} /\ At(t, p + 1) \in Digits) THEN Number(t, p)
  ELSE LET e == SegEnd(t, p) IN
       IF e = p /\ c = "bs" THEN T("comment", LineEnd(t, p), "", NoDen)
       ELSE IF e = p + 1 /\ c = "bs" /\ t[p + 1] = "lp" THEN MlBody(t, p + 2)
       ELSE T("word", e, "", NoDen)

\* all tokens of a text, up to and including the first error or the end of input
RECURSIVE LexAll(_, _)
LexAll(t, p) == LET k == Tok(t, p) IN
                IF k.k \in {"eof", "error"} THEN <<[k |-> k.k, s |-> p, e |-> k.e, err |-> k.err, den |-> k.den]>>
                ELSE <<[k |-> k.k, s |-> p, e |-> k.e, err |-> k.err, den |-> k.den]>> \o LexAll(t, k.e + 1)

\* ---- the properties of C16 on the design
Progress(t) == \A i \in 1..Len(LexAll(t, 1)) : LET k == LexAll(t, 1)[i] IN k.k \in {"eof", "error"} \/ k.e >= k.s      \* every token consumes >= 1 character
Tiling(t)   == LET ks == LexAll(t, 1) IN
               /\ ks[1].s = 1
               /\ \A i \in 1..(Len(ks) - 1) : ks[i + 1].s = ks[i].e + 1                     \* no gap, no overlap
               /\ (ks[Len(ks)].k = "eof" => ks[Len(ks)].s = Len(t) + 1)                     \* everything was covered
Total(t)    == Len(LexAll(t, 1)) <= Len(t) + 1
=============================================================================
