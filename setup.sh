#!/bin/sh
# Offline setup: build the conformance harness once (dev + release) and parse the specification.
set -e
cd "$(dirname "$0")"
export CARGO_NET_OFFLINE=true
export RUSTFLAGS="${RUSTFLAGS} -Awarnings"
(cd harness && cargo build --offline --quiet && cargo build --offline --quiet --release)
for m in spec/*.tla; do
  (cd spec && tla-sany "$(basename "$m")" >/dev/null 2>&1) || { echo "SANY failed on $m"; exit 1; }
done
echo "setup ok"
