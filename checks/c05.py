"""C05 - number <-> bits codecs are exact inverses and independent of alignment.

spec -> TLC:   spec/mc/MC_C05.tla: the codec laws of Bits.tla for every width 1..128, both byte orders, a
               pattern family per width, all values at small widths; 32/64-bit float patterns.
spec -> impl:  every case replayed through Bitstr::from_int / to_uint / to_int / from_f* / to_f* at 24 bit
               offsets (every alignment within a byte, and fields starting beyond the first bytes of the buffer) with both stale-bit fillings, and through the language words (int! / int / uint / f64).
impl -> spec:  random 128-bit values packed and unpacked by the real crate, each event judged by TLC
               evaluating the Bits.tla codec (Trace_Codec)."""
import json, os
import vlib
from vlib import Report, run_tlc, tlc_must_pass, xv_json, read_ndjson, workdir

PID = "C05"
CONF = {"quick": (128, 8, 7, 3000), "thorough": (128, 11, 1, 60000)}
CFG = "SPECIFICATION Spec\nCONSTANTS\n  MaxW = %d\n  SmallW = %d\nINVARIANT Laws\nINVARIANT Export\nCHECK_DEADLOCK FALSE\n"


def run(tier, seed):
    rep = Report(PID, tier, seed, "model_checking")
    wd = vlib.clean_workdir(PID)
    vlib.build_harness()
    maxw, smallw, stride, nrand = CONF[tier]
    outf = os.path.join(wd, "MC_C05.out")
    res = run_tlc("mc/MC_C05", CFG % (maxw, smallw), wd, name="MC_C05", timeout=3000, to_file=outf)
    if res["violated"]:
        vlib.log(res["out"][-3000:]); raise vlib.ToolError("the codec laws fail on the specification itself")
    tlc_must_pass(res, "MC_C05")
    mm = os.path.join(wd, "mm.ndjson")
    s = xv_json(["codec-replay", outf, mm, str(stride)], timeout=3000)
    for m in read_ndjson(mm):
        c = m["case"]
        rep.violation(f"codec:{c['kind']}:{c['w']}:{c['order']}:{''.join(map(str, c['value']))}",
                      f"width {c['w']} {c['order']} {c['kind']} value {''.join(map(str, c['value']))}: {m['why'][0]}", m)
    with open(outf) as f:
        for line in f:
            if line.startswith('<<"REPLAY"') and '"w\\":37' in line:
                rep.sample(json.loads(json.loads(line[len('<<"REPLAY", '):-3])))
                break
    os.remove(outf)
    t = os.path.join(wd, "rand.trace.ndjson")
    summ = xv_json(["codec-record", t, str(seed), str(nrand)])

    def on_reject(rid, ln, ev, lines):
        rep.violation(f"codecrec:{ev['w']}:{ev['order']}:{''.join(map(str, ev['value']))}",
                      f"width {ev['w']} {ev['order']} at bit offset {ev['off']}: pack/unpack of {''.join(map(str, ev['value']))} disagrees with the codec", ev)
    tstates, rej = vlib.validate_runs("Trace_Codec", t, wd, on_reject, name="Trace_Codec")
    rep.add(states=res["distinct"], transitions=res["generated"], traces_validated_against_impl=s["cases"] + summ["events"],
            evaluations=s["placements"] + summ["events"], distinct_nontrivial=s["cases"], exhaustive=True, trace_states=tstates,
            rule=f"TLC: widths 1..{maxw} x 2 orders x (zero, ones, every single-bit and single-zero pattern, sign boundaries, alternating, byte-distinct) + all values "
                 f"of widths <= {smallw}; floats: the same family at 32/64 bits; each case at 24 bit offsets (0..17, 23, 31, 33, 64, 69, 130) x 2 fillings (placements) and every {stride}th through the language words; "
                 f"{nrand} random values validated by TLC")
    rep.assumptions += ["NaN payloads through the language-level f32 path (as-casts) are not judged bit-exactly; the Bitstr API float paths are",
                        "`128 uint` answers IntegerOverflow at the language level (a cell is an i128); width 128 unsigned is judged through Bitstr::to_uint"]
    return rep.finish()


def replay(path):
    case = json.load(open(path))["case"]
    wd = workdir(PID, "replay"); p = os.path.join(wd, "one.ndjson")
    vlib.write_ndjson(p, [case.get("case", case)])
    s = xv_json(["codec-replay", p, os.path.join(wd, "one.mm.ndjson"), "1"])
    if s["mismatches"]:
        print(f"VIOLATION property={PID} replay={path}"); return 1
    print("replay: matches"); return 0
