"""C12 - maps, vectors and strings obey collection laws under the language's equality.

spec -> TLC:   spec/Collections.tla + spec/mc/MC_C12.tla: all insert/remove/get histories up to a depth over a key
               universe crossing every cell type (and over int-only / string-only universes), every intermediate
               version kept alive; invariant OneValuePerKey; vector/string words at every index class.
spec -> impl:  every history / case replayed through eval; maps compared as sets of pairs under the language's
               equality; all earlier versions must be unchanged at the end.
KNOWN FINDING: keys that Ord for Cell cannot order collide (known_findings.json, signature map-unorderable-keys)."""
import json, os
import vlib
from vlib import Report, run_tlc, tlc_must_pass, xv_json, read_ndjson, workdir

PID = "C12"
CONF = {"quick": [("all", 3), ("int", 3), ("str", 3), ("real", 3)], "thorough": [("all", 3), ("int", 5), ("str", 5), ("real", 5)]}
CFG = "SPECIFICATION Spec\nCONSTANTS\n  Mode = \"%s\"\n  MaxDepth = %d\n  KeySet = \"%s\"\nINVARIANT OneValuePerKey\nINVARIANT %s\nCHECK_DEADLOCK FALSE\n"
ORDERED = [{"int"}, {"str"}, {"real"}]


def run(tier, seed):
    rep = Report(PID, tier, seed, "model_checking")
    wd = vlib.clean_workdir(PID)
    vlib.build_harness()
    states = trans = cases = 0
    runs = [("map", d, ks, "Export") for ks, d in CONF[tier]] + [("seq", 0, "all", "ExportSeq")]
    for mode, depth, ks, inv in runs:
        name = f"MC_C12_{mode}_{ks}{depth}"
        outf = os.path.join(wd, name + ".out")
        res = run_tlc("mc/MC_C12", CFG % (mode, depth, ks, inv), wd, name=name, timeout=3400, to_file=outf)
        if res["violated"]:
            vlib.log(res["out"][-2000:]); raise vlib.ToolError("Collections.tla violates OneValuePerKey (specification-level)")
        tlc_must_pass(res, name)
        states += res["distinct"]; trans += res["generated"]
        mm = os.path.join(wd, name + ".mm.ndjson")
        s = xv_json(["coll-replay", outf, mm], timeout=3400)
        cases += s["cases"]
        for m in read_ndjson(mm):
            kt = set(m.get("keytypes") or [])
            if m.get("mode") == "map" and kt not in ORDERED and len(kt) > 0:
                rep.violation("map-unorderable-keys", f"`{m['src']}`: {m['why'][0][:200]}", m)
            else:
                rep.violation("coll:" + m["src"], f"`{m['src']}`: {m['why'][0][:300]}", m)
        if s["mismatches"] > 2000:
            vlib.log(f"note: {s['mismatches']} mismatching histories in {name}; the first 2000 were classified")
        os.remove(outf)
    rep.sample({"history": "{ } dup 10 0 insert dup 11 \"a\" insert dup 0 get over", "predicted": "every version of the map and every get result"})
    rep.sample({"seq": "[ 1 2 3 ] dup -4 nth", "predicted": "error (out of range)"})
    rep.add(states=states, transitions=trans, traces_validated_against_impl=cases, evaluations=cases, distinct_nontrivial=cases, exhaustive=True,
            rule=f"TLC: all insert/remove/get histories with (key universe, depth) {CONF[tier]} (17 keys of every type incl. a tagged key; 6 ints; 5 strings) and "
                 "vector/string cases (4 vectors x 11 index classes incl. beyond-machine-range x nth/get/slice, reverse, length, push, unbox/collect, sort; 3 strings); every case replayed")
    rep.assumptions += ["sort is judged on integers only (mutually comparable elements)", "an index beyond the machine range may be rejected or clamped by slice; it must never act as a truncated in-range index",
                        "NaN is never used as a key or element"]
    return rep.finish()


def replay(path):
    print(json.dumps(json.load(open(path))["case"])[:3000]); return 1
