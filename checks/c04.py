"""C04 - bit-string operations depend only on the bit sequence, never on how it is stored.

spec -> TLC:   spec/BitstrStore.tla (buffers, reference counts, borrowed flag, handles as bit ranges; every
               public operation with its copy-on-write / unique-owner / fast-path case analysis) refines
               spec/Bits.tla (plain sequences): invariants Refines and RcOk over all reachable layouts.
spec -> impl:  EVERY transition TLC explores is one test on xeh::bitstr::Bitstr: the pre-state layout is
               rebuilt through the public API, the operation applied, every live handle compared.
impl -> spec:  seeded long histories (8 handles, 30 operations) validated by TLC against Trace_Bits."""
import json, os
import vlib
from vlib import Report, run_tlc, tlc_must_pass, xv_json, read_ndjson, workdir

PID = "C04"
# (handles, buffers, depth, patterns, start): histories from the empty store, and every operation on every small layout
CONF = {"quick": [(3, 3, 3, "PatternsBig", "empty"), (3, 3, 1, "PatternsSmall", "any")],
        "thorough": [(3, 3, 4, "PatternsBig", "empty"), (3, 3, 4, "PatternsSmall", "empty"), (3, 3, 1, "PatternsBig", "any")]}
RANDOM = {"quick": (300, 30), "thorough": (5000, 40)}
CFG = """SPECIFICATION Spec
CONSTANTS
  MaxH = %d
  MaxB = %d
  MaxDepth = %d
  Legacy = {%s}
  Patterns <- %s
  Start = "%s"
INVARIANT Refines
INVARIANT RcOk
CHECK_DEADLOCK FALSE
"""


def run(tier, seed):
    rep = Report(PID, tier, seed, "model_checking")
    wd = vlib.clean_workdir(PID)
    vlib.build_harness()
    states = trans = cases = layouts = 0
    ops = {}
    for (mh, mb, depth, pats, start) in CONF[tier]:
        name = f"MC_C04_h{mh}b{mb}d{depth}{pats}{start}"
        outf = os.path.join(wd, name + ".out")
        res = run_tlc("mc/MC_C04", CFG % (mh, mb, depth, "", pats, start), wd, name=name, timeout=3400, to_file=outf)
        if res["violated"]:
            vlib.log(res["out"][-3000:])
            raise vlib.ToolError("BitstrStore does not refine Bits on the design (specification-level)")
        tlc_must_pass(res, name)
        states += res["distinct"]; trans += res["generated"]
        mm = os.path.join(wd, name + ".mm.ndjson")
        s = xv_json(["bits-replay", outf, mm], timeout=3400)
        cases += s["cases"]; layouts += s["distinct_layouts"]
        for k, v in s["ops"].items():
            ops[k] = ops.get(k, 0) + v
        for m in read_ndjson(mm):
            c = m["case"]
            rep.violation(f"bits:{c['op']}:{json.dumps(c['args'], sort_keys=True)}:{vlib.sha(json.dumps(c['pre'], sort_keys=True))}",
                          f"{c['op']} {c['args']} on layout {json.dumps(c['pre'])[:300]}: {'; '.join(m['why'][:2])}", m)
        os.remove(outf)
    # the pinned append must still be rejected by the model checker
    legacy = run_tlc("mc/MC_C04", CFG % (3, 3, 4, '"appendslack"', "PatternsSmall", "empty"), wd, name="MC_C04_legacy", timeout=1200,
                     to_file=os.path.join(wd, "legacy.out"))
    os.remove(os.path.join(wd, "legacy.out"))
    if not legacy["violated"]:
        raise vlib.ToolError("regression configuration: the pinned append design is no longer rejected")
    runs, oplen = RANDOM[tier]
    t = os.path.join(wd, "rand.trace.ndjson")
    summ = xv_json(["bits-record", t, str(seed), str(runs), str(oplen)])

    def on_reject(rid, ln, ev, lines):
        first = next(i for i, l in enumerate(lines) if json.loads(l).get("run") == rid)
        hist = [json.loads(l) for l in lines[first:ln]]
        rep.violation(f"bitstrace:{vlib.sha(json.dumps([(h['op'], h['args']) for h in hist]))}",
                      f"history of {len(hist)} operations ending in {ev['op']} {ev['args']}: a handle's bits differ from the plain-sequence model",
                      {"history": [{"op": h["op"], "args": h["args"]} for h in hist], "last_post": ev.get("post")})
    tstates, rej = vlib.validate_runs("Trace_Bits", t, wd, on_reject, name="Trace_Bits")
    rep.sample({"transition": "layout -> op -> abstract bits per handle", "ops": ops})
    first = open(t).readline()
    rep.sample(json.loads(first) if first else {})
    rep.add(states=states, transitions=trans, traces_validated_against_impl=cases + summ["runs"], evaluations=cases + summ["events"],
            distinct_nontrivial=layouts, exhaustive=True, ops=ops, trace_states=tstates, legacy_design_rejected=True,
            rule=f"TLC: all layouts reachable with the constants {CONF[tier]} (handles, buffers, history depth, byte patterns incl. both kinds of "
                 "stale bit; view operations at 9 bit counts); every explored transition replayed; distinct_nontrivial = distinct pre-state layouts; "
                 f"plus {runs} seeded histories of {oplen} operations on 8 handles validated against the abstract operators")
    rep.assumptions += ["seek/substr take absolute positions; they are exercised relative to start(), which is not part of the abstract value",
                        "derived views (iter8, hex, bytes, ==) are checked against reference functions of the predicted bit sequence in the harness"]
    return rep.finish()


def replay(path):
    case = json.load(open(path))["case"]
    wd = workdir(PID, "replay")
    p = os.path.join(wd, "one.ndjson")
    vlib.write_ndjson(p, [case["case"]] if "case" in case else [case])
    s = xv_json(["bits-replay", p, os.path.join(wd, "one.mm.ndjson")])
    if s["mismatches"]:
        print(f"VIOLATION property={PID} replay={path}")
        return 1
    print("replay: matches the specification now")
    return 0
