"""C03 - a cloned interpreter is an independent snapshot; re-running it is deterministic.

spec -> TLC:   spec/mc/MC_C03.tla enumerates every history of length L over Clone / Submit / Step / RStep with up to three
               instances, per theme (shared bit-strings, variables/vectors/maps, definitions and late binding, parsing
               cursor and output, the 2D canvas host object, stepping with recording).
impl -> spec:  each history is executed on real State values (State::clone); after every event the canonical dump of every
               live instance is recorded and validated by TLC against Trace_CloneObs (the dump is a function of the call
               sequence).  Seeded long histories over the whole dictionary likewise.  REPL: /snapshot + /rollback scripts
               through the real binary."""
import json, os, subprocess
import vlib
from vlib import Report, run_tlc, tlc_must_pass, xv_json, read_ndjson, workdir

PID = "C03"
THEMES = ["bits", "vars", "defs", "cursor", "canvas", "step"]
LEN = {"quick": {"bits": 3, "vars": 3, "defs": 3, "cursor": 3, "canvas": 3, "step": 3},
       "thorough": {"bits": 4, "vars": 4, "defs": 4, "cursor": 4, "canvas": 4, "step": 4}}
RANDOM = {"quick": (400, 14), "thorough": (6000, 20)}
CFG = "SPECIFICATION Spec\nCONSTANTS\n  Theme = \"%s\"\n  L = %d\n  Pre = \"%s\"\nINVARIANT Export\nCHECK_DEADLOCK FALSE\n"


def validate(rep, wd, trace, side, label):
    sides = {s["run"]: s for s in read_ndjson(side)}

    def on_reject(rid, ln, ev, lines):
        s = sides.get(rid, {})
        first = next(i for i, l in enumerate(lines) if json.loads(l).get("run") == rid)
        hist = s.get("history", [])[: ln - first - 1]
        rep.violation(f"clone:{s.get('theme')}:" + " | ".join(hist),
                      f"[{s.get('theme')}] history {hist}: after the last event an instance's dump is not the one its own call sequence determines "
                      "(a clone differs from its source, an event on one instance changed another, or re-running differs)", {"history": hist, "event": ev})
    return vlib.validate_runs("Trace_CloneObs", trace, wd, on_reject, name="Trace_" + label)


def repl_scripts(rep, wd, limit):
    tdir = os.path.join(vlib.WORK, "repo-target")
    p = subprocess.run(["cargo", "build", "--offline", "--quiet", "--manifest-path", os.path.join(vlib.REPO, "Cargo.toml"), "--target-dir", tdir],
                       stdout=subprocess.PIPE, stderr=subprocess.STDOUT, text=True, env=dict(os.environ, RUSTFLAGS="-Awarnings", CARGO_NET_OFFLINE="true"))
    if p.returncode != 0:
        raise vlib.ToolError("cannot build the xeh binary: " + p.stdout[-500:])
    exe = os.path.join(tdir, "debug", "xeh")
    scratch = workdir(PID, "repl")

    def final(lines):
        script = "\n".join(["/repl"] + lines + ['"<<END>>" print newline']) + "\n"
        r = subprocess.run([exe], input=script, stdout=subprocess.PIPE, stderr=subprocess.PIPE, text=True, cwd=scratch, timeout=60)
        return r.stdout.split('"<<END>>"\n')[-1] if '"<<END>>"' in r.stdout else "<<no end marker>>" + r.stdout[-200:]
    before = [["1 2"], ["|12 34| var p p"], ["[ 1 2 ] var w w"], ["2 2 d2-resize 1 d2-color! 0 0 d2-data! 0 0 d2-data"], [": f 5 ; f"]]
    after = [["drop 9"], ["p bitstr-not ! p p"], ["3 w push ! w w"], ["7 d2-color! 0 0 d2-data! 0 0 d2-data"], [": f 6 ; f"], ["foo"], ["1 0 /"]]
    probes = [["depth"], ["p"], ["w"], ["0 0 d2-data"], ["f"]]
    n = 0
    for bi, b in enumerate(before):
        for a in after:
            for pr in (probes[bi], ["depth"]):
                with_rb = final(b + ["/snapshot"] + a + ["/rollback"] + pr)
                without = final(b + pr)
                n += 1
                if with_rb != without:
                    rep.violation("repl-rollback:" + " ; ".join(b + a + pr), f"REPL: `{b}` /snapshot `{a}` /rollback `{pr}` prints {with_rb!r}, without the detour {without!r}", {"b": b, "a": a, "probe": pr})
                if n >= limit:
                    return n
    return n


def run(tier, seed):
    rep = Report(PID, tier, seed, "model_checking")
    wd = vlib.clean_workdir(PID)
    vlib.build_harness()
    states = trans = runs = events = tstates = 0
    # every history of length L after the theme's prelude (storage to share exists from the start), and the bare ones
    plan = [(th, LEN[tier][th], "on") for th in THEMES] + [(th, LEN[tier][th], "off") for th in THEMES]
    for th, ln, pre in plan:
        name = f"MC_C03_{th}_{pre}"
        outf = os.path.join(wd, name + ".out")
        res = run_tlc("mc/MC_C03", CFG % (th, ln, pre), wd, name=name, timeout=3000, to_file=outf)
        tlc_must_pass(res, name)
        states += res["distinct"]; trans += res["generated"]
        t, sd = os.path.join(wd, th + ".trace.ndjson"), os.path.join(wd, th + ".side.ndjson")
        s = xv_json(["clone-record", outf, t, sd], timeout=3000)
        os.remove(outf)
        runs += s["runs"]; events += s["events"]
        ts, rej = validate(rep, wd, t, sd, th + "_" + pre)
        tstates += ts
    n, ln = RANDOM[tier]
    t, sd = os.path.join(wd, "rand.trace.ndjson"), os.path.join(wd, "rand.side.ndjson")
    s = xv_json(["clone-record", "--random", str(seed), str(n), str(ln), t, sd])
    runs += s["runs"]; events += s["events"]
    ts, rej = validate(rep, wd, t, sd, "random")
    tstates += ts
    for x in read_ndjson(sd)[:2]:
        rep.sample({"history": x["history"][:6]})
    nrepl = repl_scripts(rep, wd, 20 if tier == "quick" else 70)
    rep.add(states=states, transitions=trans, traces_validated_against_impl=runs + nrepl, evaluations=events + nrepl, distinct_nontrivial=runs, trace_states=tstates,
            repl_scripts=nrepl,
            rule=f"TLC: all histories of the per-theme length {LEN[tier]} after the theme's prelude, and the bare histories, that contain at least one clone (3 instances, clone of clone included); "
                 f"{n} seeded histories of {ln} events over the whole dictionary (the same source is regularly applied to two instances); REPL /snapshot-/rollback scripts")
    rep.assumptions += ["the dump renders shared structure by value (bit-strings as bits, the canvas through d2_plugin::copy_rgba_data), never by address",
                        "sources exclude random, random-bits, read-all, write-all, exec-piped, include/require (the property's own exclusions)"]
    return rep.finish()


def replay(path):
    print(json.dumps(json.load(open(path))["case"])[:3000]); return 1
