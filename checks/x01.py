"""X01 - `let` destructuring means what the pattern says (outside the 18 listed properties; DESIGN 13.8).

spec -> TLC:   spec/Let.tla (structural match of a value against a pattern tree) instantiated by spec/mc/MC_Let.tla:
               every pattern of the grammar up to a size x a pool of values built to reach every arm.
spec -> impl:  each pair compiled by the real `let` at top level (globals) and inside a definition (locals):
               same outcome class, same bound values in the same order, bindings made before a failure stay."""
import json, os
import vlib
from vlib import Report, run_tlc, tlc_must_pass, xv_json, read_ndjson

PID = "X01"
CFG = "SPECIFICATION Spec\nCONSTANTS\n  MaxLen = %d\nINVARIANT Export\nCHECK_DEADLOCK FALSE\n"
MAXLEN = {"quick": 2, "thorough": 3}


def run(tier, seed):
    rep = Report(PID, tier, seed, "model_checking")
    wd = vlib.clean_workdir(PID)
    vlib.build_harness()
    outf = os.path.join(wd, "MC_Let.out")
    res = run_tlc("mc/MC_Let", CFG % MAXLEN[tier], wd, name="MC_Let", timeout=3000, to_file=outf)
    tlc_must_pass(res, "MC_Let")
    mm = os.path.join(wd, "mm.ndjson")
    s = xv_json(["let-replay", outf, mm], timeout=3000)
    for m in read_ndjson(mm):
        rep.violation("let:" + m["pattern"] + ":" + json.dumps(m["case"]["value"], sort_keys=True),
                      f"`let {m['pattern']}` on {json.dumps(m['case']['value'])[:80]}: {m['why'][0]}", m)
    with open(outf) as f:
        for line in f:
            if line.startswith('<<"REPLAY"') and '"err\\":\\"none' in line and '"&' in line:
                rep.sample(json.loads(json.loads(line[len('<<"REPLAY", '):-3])))
                break
    os.remove(outf)
    rep.add(states=res["distinct"], transitions=res["generated"], traces_validated_against_impl=s["cases"] * 2, evaluations=s["cases"] * 2,
            distinct_nontrivial=s["cases"] - s["skipped"], exhaustive=True, successful_matches=s["cases"] - s["failing_matches"],
            rule=f"every pattern (vector patterns up to {MAXLEN[tier]} items, rest patterns, map patterns up to 2 keys, tag patterns, one level of nesting) "
                 "x 26 pool values; each in global and in local mode; non-trivial = not skipped (key type differs from the map's key type: known finding C12)")
    rep.assumptions += ["a `^` tag pattern inside a vector pattern is always followed by the pattern of the element itself"]
    return rep.finish()


def replay(path):
    case = json.load(open(path))["case"]
    wd = vlib.workdir(PID, "replay"); p = os.path.join(wd, "one.ndjson")
    vlib.write_ndjson(p, [case.get("case", case)])
    s = xv_json(["let-replay", p, os.path.join(wd, "one.mm.ndjson")])
    if s["mismatches"]:
        print(f"VIOLATION property={PID} replay={path}"); return 1
    print("replay: matches"); return 0
