"""C01 - structured control flow compiles to bytecode that means what the source says.

spec -> TLC:   spec/mc/MC_C01.tla enumerates every program of each fragment alphabet up to the
               phrase budget, runs the implementation-shaped design (Xeh.tla) and the structural
               reference (Src.tla) on it and checks their agreement on the design.
spec -> impl:  every enumerated program is replayed on the real crate (eval), verdict = the
               reference's prediction (stack, variables, output / error class, failure point /
               "still running at the limit").
impl -> spec:  seeded larger programs are run on the real crate, recorded, and TLC evaluates the
               reference on each recorded program (spec/trace/Trace_Source.tla)."""
import json, os
import vlib
from vlib import Report, run_tlc, tlc_must_pass, extract_lines, write_ndjson, read_ndjson, xv_json, workdir

PID = "C01"
FRAGS = ["cond", "begin", "do", "def", "case", "mix", "late", "locloop"]
BUDGET = {"quick": {"cond": 4, "begin": 4, "do": 4, "def": 5, "case": 4, "mix": 4, "late": 4, "locloop": 7},
          "thorough": {"cond": 5, "begin": 5, "do": 5, "def": 6, "case": 5, "mix": 5, "late": 5, "locloop": 8}}

RANDOM = {"quick": (1500, 40), "thorough": (25000, 50)}

CFG = """SPECIFICATION Spec
CONSTANTS
  Frag = "%s"
  Budget = %d
  Legacy = {%s}
INVARIANT Export
CHECK_DEADLOCK FALSE
"""


def enumerate_fragment(frag, budget, wd, legacy=""):
    res = run_tlc("mc/MC_C01", CFG % (frag, budget, legacy), wd, name=f"MC_C01_{frag}", timeout=3000)
    tlc_must_pass(res, f"MC_C01 {frag}")
    return res, extract_lines(res["out"])


def judge_cases(rep, cases_path, label, drive="eval", rec=""):
    mm_path = cases_path.replace(".ndjson", f".mismatch.{drive}{rec}.ndjson")
    args = ["replay-prog", cases_path, mm_path, drive]
    if rec:
        args.append("rec")
    summary = xv_json(args)
    for m in read_ndjson(mm_path):
        sig = "prog:" + m["src"]
        rep.violation(sig, f"{label}: `{m['src']}` {'; '.join(m['why'])}", m)
    return summary


def run(tier, seed):
    rep = Report(PID, tier, seed, "model_checking")
    wd = vlib.clean_workdir(PID)
    vlib.build_harness()
    states = trans = programs = nontrivial = compared = ndrift = 0
    kinds = {}
    for frag in FRAGS:
        res, lines = enumerate_fragment(frag, BUDGET[tier][frag], wd)
        states += res["distinct"]
        trans += res["generated"]
        disagree = [l for l in lines if '"agree":false' in l]
        if disagree:
            vlib.log("\n".join(disagree[:5]))
            raise vlib.ToolError(f"design and reference disagree on {len(disagree)} programs of fragment {frag}: "
                                 "the specification is inconsistent (not a verdict about the code)")
        cases = os.path.join(wd, f"cases_{frag}.ndjson")
        write_ndjson(cases, lines)
        for l in lines:
            k = json.loads(l)["kind"]
            kinds[k] = kinds.get(k, 0) + 1
        s = judge_cases(rep, cases, f"fragment {frag}")
        programs += s["judged"]
        # drift: the code skeleton the design compiles vs the one the real compiler emits (never a verdict)
        df = os.path.join(wd, f"drift_{frag}.ndjson")
        ds = xv_json(["code-drift", cases, df])
        compared += ds["compared"]
        for d in read_ndjson(df)[:5]:
            rep.drift.append(f"fragment {frag}: `{d['src']}` compiles to {d['compiler']} where Xeh.tla compiles {d['design']}")
        ndrift += ds["drifts"]
        if lines:
            rep.sample(json.loads(lines[len(lines) // 2]))
    # impl -> spec: seeded programs far beyond the enumeration bound, judged by TLC evaluating the reference
    nrand, budget = RANDOM[tier]
    t = os.path.join(wd, "rand.trace.ndjson")
    summ = xv_json(["prog-record", t, str(seed), str(nrand), str(budget)])

    def on_reject(rid, ln, ev, lines):
        rep.violation("prog:" + ev["src"], f"seeded program `{ev['src']}`: observed {ev['res']}/{ev['cls']} stack {json.dumps(ev['ds'])[:200]} is not what the structural reference computes", 
                      {"src": ev["src"], "observed": {k: ev[k] for k in ("res", "cls", "ds", "out", "vars")}})
    tstates, rej = vlib.validate_runs("Trace_Source", t, wd, on_reject, name="Trace_Source", max_rounds=20)
    programs += summ["programs"]
    rep.sample({"seeded": json.loads(open(t).readline())["src"]})
    nontrivial = kinds.get("done", 0) + kinds.get("timeout", 0)
    rep.add(states=states, transitions=trans, traces_validated_against_impl=programs, evaluations=programs,
            distinct_nontrivial=nontrivial, exhaustive=True, kinds=kinds,
            trace_states=tstates, seeded_programs=summ["programs"], code_skeletons_compared=compared, code_skeleton_drifts=ndrift,
            rule=f"plus {nrand} seeded programs of up to {budget + 6} tokens (nested definitions, repeated local names, every control structure) judged by TLC evaluating Src.tla; "
                 "every program derivable from the fragment grammar up to the phrase budget "
                 f"{BUDGET[tier]} (TLC, generation by actions); distinct by construction; non-trivial = "
                 "terminates normally or is structurally non-terminating (programs failing with an error are "
                 "judged too but not counted)")
    rep.assumptions += ["words' own meaning on small integers is shared by Xeh.tla natives and Src.tla builtins only via the replay on the real crate",
                        "integers stay below 2^30 in the model (larger intermediate values are outside the model and skipped)"]
    return rep.finish()


def replay(path):
    case = json.load(open(path))["case"]
    wd = workdir(PID, "replay")
    p = os.path.join(wd, "one.ndjson")
    write_ndjson(p, [case["expected"]])
    s = xv_json(["replay-prog", p, os.path.join(wd, "one.mismatch.ndjson"), case.get("drive", "Eval").lower()])
    mm = read_ndjson(os.path.join(wd, "one.mismatch.ndjson"))
    if mm:
        print(f"VIOLATION property={PID} replay={path}  # {'; '.join(mm[0]['why'])}")
        return 1
    print("replay: behaviour now matches the specification")
    return 0
