"""C14 - resource limits are hard bounds and hitting one is recoverable.

spec -> TLC:   spec/mc/MC_C14.tla steps every generated program under every limit triple and
               checks HardBounds / LimitOnlyAtLimit / Recoverable on the design.
spec -> impl:  every (program, limits) pair replayed on the real crate in run mode and in step
               mode with recovery (harness limits-replay).
impl -> spec:  seeded whole-dictionary and flooding programs with limits changed between
               evaluations, dump after every step, validated by TLC against Trace_Limits."""
import json, os
import vlib
from vlib import Report, run_tlc, tlc_must_pass, extract_lines, write_ndjson, read_ndjson, xv_json, workdir

PID = "C14"
FRAGS = {"quick": [("grow", 3), ("metalim", 5), ("zoo", 2), ("do", 2)],
         "thorough": [("grow", 4), ("metalim", 6), ("zoo", 3), ("do", 3), ("zoo2", 4), ("mix", 3), ("def", 4)]}
RANDOM = {"quick": (1500, 30), "thorough": (20000, 40)}
CFG = """SPECIFICATION Spec
CONSTANTS
  Frag = "%s"
  Budget = %d
  Legacy = {}
INVARIANT HardBounds
INVARIANT Recoverable
INVARIANT LimitOnlyAtLimit
INVARIANT Export
CHECK_DEADLOCK FALSE
"""


def run(tier, seed):
    rep = Report(PID, tier, seed, "model_checking")
    wd = vlib.clean_workdir(PID)
    vlib.build_harness()
    states = trans = pairs = hits = 0
    for frag, budget in FRAGS[tier]:
        res = run_tlc("mc/MC_C14", CFG % (frag, budget), wd, name=f"MC_C14_{frag}", timeout=3000)
        if res["violated"]:
            vlib.log(vlib.tlc_tail(res))
            raise vlib.ToolError(f"the design violates a limit invariant on fragment {frag} (specification-level)")
        tlc_must_pass(res, f"MC_C14 {frag}")
        states += res["distinct"]; trans += res["generated"]
        lines = extract_lines(res["out"])
        cases = os.path.join(wd, f"cases_{frag}.ndjson")
        write_ndjson(cases, lines)
        mm = os.path.join(wd, f"mm_{frag}.ndjson")
        s = xv_json(["limits-replay", cases, mm])
        pairs += s["cases"]; hits += s["limit_hits"]
        for m in read_ndjson(mm):
            rep.violation(f"lim:{m['src']}|{m['n']},{m['s']},{m['h']}|{m['mode']}",
                          f"`{m['src']}` with limits N={m['n']} S={m['s']} H={m['h']} ({m['mode']} mode): {'; '.join(m['why'])}", m)
        if lines:
            c = json.loads(lines[len(lines) // 2]); c.pop("trail", None)
            rep.sample(c)
    n, budget = RANDOM[tier]
    t, sd = os.path.join(wd, "rand.trace.ndjson"), os.path.join(wd, "rand.side.ndjson")
    summ = xv_json(["limits-record", t, sd, str(seed), str(n), str(budget)])
    sides = {s["run"]: s for s in read_ndjson(sd)}

    def on_reject(rid, ln, ev, lines):
        s = sides.get(rid, {})
        rep.violation("limtrace:" + " || ".join(s.get("srcs", [])), f"limits exceeded in recorded run {rid}: sources {s.get('srcs')}, event {ev}", {"side": s, "event": ev})
    tstates, rej = vlib.validate_runs("Trace_Limits", t, wd, on_reject, name="Trace_Limits")
    # binding demonstration
    lines = open(t).read().splitlines()
    idx = next((i for i, l in enumerate(lines) if '"step"' in l and '"ok":1' in l), None)
    bind = None
    if idx is not None:
        ev = json.loads(lines[idx]); ev["ds"] = 100000
        # find the limits in force: make sure a stack limit exists by forcing one
        forced = [json.dumps({"run": 0, "ev": "reset"}), json.dumps({"run": 0, "ev": "setlimit", "n": 50, "s": 5, "h": -1, "ds": 0, "heap": 0}), json.dumps(ev)]
        p = os.path.join(wd, "corrupt.trace.ndjson"); open(p, "w").write("\n".join(forced) + "\n")
        ok, info = vlib.validate_trace("Trace_Limits", p, wd, name="Trace_bind")
        if ok:
            raise vlib.ToolError("binding demonstration failed: an over-limit event was accepted")
        bind = {"rejected_at": info["rejected_at"]}
    rep.sample({"recorded_run": sides.get(0)})
    rep.add(states=states, transitions=trans, traces_validated_against_impl=pairs + summ["runs"],
            evaluations=pairs * 2 + summ["events"], distinct_nontrivial=hits + summ["limit_errors"], trace_states=tstates,
            binding_demo=bind,
            rule=f"TLC: every program of fragments {FRAGS[tier]} x 15 limit triples, stepped one instruction per action; implementation: "
                 f"each pair in run and step mode with recovery, plus {n} recorded runs (random whole-dictionary and flooding "
                 "programs, limits changed between evaluations); non-trivial = cases in which a limit is actually hit")
    rep.assumptions += ["the exceeding operation need not be atomic (partial pushes before the error are allowed)",
                        "instruction counts in run mode are judged through the design's state trail, not through the implementation's own meter"]
    return rep.finish()


def replay(path):
    case = json.load(open(path))["case"]
    print(json.dumps(case)[:1500])
    return 1
