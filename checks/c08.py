"""C08 - no source text, input or API call sequence can crash the interpreter.

spec -> TLC:   spec/mc/MC_C08.tla generates the complete matrix (tabulated word x argument tuple) from a pool crossing every
               type with the integer boundary values; Words.tla supplies the arities.
impl:          the matrix (recording off and on), every dictionary word outside the table at arities 0..3, all token
               sequences of length <= 2 over dictionary + structural tokens + malformed fragments, and seeded API call
               sequences (eval / compile / run / next / rnext / pretty_error / format_cell / clone / limits), each call under
               catch_unwind, in a dev build (overflow checks on) and a release build.
impl -> spec:  panics and a sample of the other outcomes are validated by TLC against Trace_Total (outcome in {ok, err})."""
import json, os, subprocess
import vlib
from vlib import Report, run_tlc, tlc_must_pass, xv_json, read_ndjson, workdir

PID = "C08"
CONF = {"quick": dict(size="core", stride=1, api=1500, profiles=["dev", "release"]),
        "thorough": dict(size="full", stride=1, api=30000, profiles=["dev", "release"])}


def crashed_candidates(logpath):
    if not os.path.exists(logpath):
        return []
    lines = open(logpath, errors="replace").read().splitlines()
    return lines[-1:]


def run_part(rep, wd, profile, label, args, logname):
    """Run one harness subcommand; a dead process (abort, stack overflow, OOM kill) is a violation attributed to the
    last source written to the progress log."""
    exe = vlib.build_harness(profile)
    log = os.path.join(wd, f"{label}.{profile}.{logname}.log")
    trace = os.path.join(wd, f"{label}.{profile}.trace.ndjson")
    full = [exe] + [a.replace("@TRACE@", trace).replace("@LOG@", log) for a in args]
    p = subprocess.run(full, stdout=subprocess.PIPE, stderr=subprocess.PIPE, text=True, timeout=3400)
    if p.returncode != 0:
        last = crashed_candidates(log)
        rep.violation(f"crash:{profile}:{last[-1] if last else '?'}", f"[{profile}] the process died (exit {p.returncode}) while evaluating `{last[-1] if last else '?'}`: {p.stderr[-300:]}", {"last": last, "stderr": p.stderr[-2000:]})
        return {"calls": 0, "panics": 0}, trace
    last = [l for l in p.stdout.strip().splitlines() if l.strip()]
    return json.loads(last[-1]), trace


def run(tier, seed):
    rep = Report(PID, tier, seed, "exploration")
    wd = vlib.clean_workdir(PID)
    conf = CONF[tier]
    outf = os.path.join(wd, "MC_C08.out")
    res = run_tlc("mc/MC_C08", "SPECIFICATION Spec\nCONSTANTS\n  Size = \"%s\"\nINVARIANT Export\nCHECK_DEADLOCK FALSE\n" % conf["size"], wd, name="MC_C08", timeout=3000, to_file=outf)
    tlc_must_pass(res, "MC_C08")
    calls = 0
    tstates = 0
    per = {}
    for profile in conf["profiles"]:
        parts = [("matrix", ["total-matrix", outf, "@TRACE@", "@LOG@"]),
                 ("pairs", ["total-pairs", "@TRACE@", "@LOG@", str(conf["stride"])]),
                 ("api", ["total-api", "@TRACE@", "@LOG@", str(seed), str(conf["api"])])]
        for label, args in parts:
            s, trace = run_part(rep, wd, profile, label, args, "progress")
            calls += s.get("calls", 0)
            per[f"{label}.{profile}"] = s
            if not os.path.exists(trace):
                continue
            # TLC validates the recorded outcomes; each rejected event is a panic
            cur = trace
            for rnd in range(60):
                ok, info = vlib.validate_trace("Trace_Total", cur, wd, name=f"Trace_Total_{label}_{profile}")
                tstates = max(tstates, info["states"])
                if ok:
                    break
                ls = open(cur).read().splitlines()
                ln = min(info["rejected_at"], len(ls))
                ev = json.loads(ls[ln - 1])
                msg = ev.get("msg", "")
                # one finding per panic site (message), not per input
                rep.violation(f"panic:{msg[:80]}", f"[{profile}] `{ev.get('src')}` panicked: {msg[:200]}", ev)
                cur = trace + f".r{rnd}"
                open(cur, "w").write("\n".join(l for l in ls if json.loads(l).get("msg", "") != msg or json.loads(l).get("out") != "panic") + "\n")
            else:
                vlib.log("note: more than 60 distinct panic sites; the rest was not examined")
    os.remove(outf)
    rep.sample({"matrix row": "[ 1 2 3 ] -9223372036854775808 nth", "recording": [False, True]})
    rep.sample({"pair": "let \\ c"}); rep.sample({"api": "compile <corrupted source>; run; rnext; pretty_error; clone; restore"})
    rep.add(evaluations=calls, distinct_nontrivial=res["distinct"] // 2, states=res["distinct"], transitions=res["generated"],
            traces_validated_against_impl=len(per), parts=per, trace_states=tstates,
            rule=f"TLC: tabulated words x tuples from the pool ({conf['size']}: 44 values for arity 1, 17 / 44 for arity 2, 6 / 17 for arity 3); harness: the same pools on every other "
                 "dictionary word at arities 0..3 (and as follower of immediate words), all ordered pairs of ~270 tokens, seeded API sequences; dev and release builds; "
                 "distinct_nontrivial = matrix rows generated by TLC")
    rep.assumptions += ["instruction and stack limits are always set; allocation-sized arguments (int!/uint!/float! widths, d2-resize) are capped at 2^16; exec-piped, random, random-bits are excluded; "
                        "file words run in a scratch directory", "exploration, not proof: absence of panics is shown on the explored inputs only"]
    return rep.finish()


def replay(path):
    print(json.dumps(json.load(open(path))["case"])[:3000]); return 1
