"""C02 - reverse stepping exactly undoes forward stepping, and replay reproduces it.

spec -> TLC:   spec/mc/MC_C02.tla: every Fwd/Back interleaving of every generated program on
               the design of the reverse log (Xeh.tla primitives + RNext); invariant Reversible.
spec -> impl:  each enumerated program is driven on the real crate under three stepping
               schedules; the recorded trace is validated by TLC (Trace_ReverseObs).
impl -> spec:  seeded programs over the whole dictionary, same validation."""
import json, os
import vlib
from vlib import Report, run_tlc, tlc_must_pass, extract_lines, write_ndjson, read_ndjson, xv_json, workdir

PID = "C02"
FRAGS = {"quick": [("zoo", 4), ("zoo2", 5), ("locloop", 6), ("do", 3), ("mix", 3), ("late", 4)],
         "thorough": [("zoo", 5), ("zoo2", 6), ("locloop", 8), ("do", 5), ("mix", 5), ("def", 5), ("case", 4), ("begin", 4), ("late", 5)]}
RANDOM = {"quick": (1500, 30), "thorough": (20000, 45)}
REPLAY_CAP = {"quick": 9000, "thorough": 30000}      # per fragment

CFG = """SPECIFICATION Spec
CONSTANTS
  Frag = "%s"
  Budget = %d
  Legacy = {}
INVARIANT Reversible
INVARIANT Export
CHECK_DEADLOCK FALSE
"""


def validate(rep, wd, trace, side, label):
    sides = {s["run"]: s for s in read_ndjson(side)}
    for s in sides.values():
        if s.get("panic"):
            rep.violation("rev-panic:" + s["src"], f"{label}: panic while stepping `{s['src']}`: {s['panic']}", s)

    def on_reject(rid, ln, ev, lines):
        s = sides.get(rid, {})
        first = next(i for i, l in enumerate(lines) if json.loads(l).get("run") == rid)
        rep.violation("rev:" + s.get("src", "?"),
                      f"{label}: `{s.get('src')}` stepping schedule {s.get('moves', '')[:ln - first - 1]}: state after event "
                      f"{ln - first} ({ev.get('ev')}) is not the state recorded for that position",
                      {"src": s.get("src"), "moves": s.get("moves", "")[:ln - first - 1], "event": ev})
    states, rejected = vlib.validate_runs("Trace_ReverseObs", trace, wd, on_reject, name="Trace_" + label)
    return states, rejected


def run(tier, seed):
    rep = Report(PID, tier, seed, "model_checking")
    wd = vlib.clean_workdir(PID)
    vlib.build_harness()
    states = trans = 0
    all_cases = []
    replayed = []
    for frag, budget in FRAGS[tier]:
        res = run_tlc("mc/MC_C02", CFG % (frag, budget), wd, name=f"MC_C02_{frag}", timeout=3000)
        if res["violated"]:
            vlib.log("\n".join(res["out"].splitlines()[-60:]))
            raise vlib.ToolError(f"the design of the reverse log violates Reversible on fragment {frag} (specification-level)")
        tlc_must_pass(res, f"MC_C02 {frag}")
        states += res["distinct"]
        trans += res["generated"]
        lines = extract_lines(res["out"])
        all_cases += lines
        # TLC has explored every interleaving of every program on the design; on the real crate each program is stepped
        # under three schedules: every program of a fragment up to the cap, a deterministic stride sample of a larger one
        cap = REPLAY_CAP[tier]
        replayed += lines if len(lines) <= cap else lines[::(len(lines) + cap - 1) // cap]
    cases = os.path.join(wd, "cases.ndjson")
    write_ndjson(cases, replayed)
    t1, s1 = os.path.join(wd, "enum.trace.ndjson"), os.path.join(wd, "enum.side.ndjson")
    sum1 = xv_json(["rev-record", t1, s1, "--cases", cases, str(seed)])
    st1, rej1 = validate(rep, wd, t1, s1, "enumerated")
    n, budget = RANDOM[tier]
    t2, s2 = os.path.join(wd, "rand.trace.ndjson"), os.path.join(wd, "rand.side.ndjson")
    sum2 = xv_json(["rev-record", t2, s2, "--random", str(seed), str(n), str(budget)])
    st2, rej2 = validate(rep, wd, t2, s2, "random")

    # binding demonstration: a corrupted event must be rejected
    bind = None
    lines = open(t2).read().splitlines()
    idx = next((i for i, l in enumerate(lines) if '"rstep"' in l), None)
    if idx is not None:
        ev = json.loads(lines[idx]); ev["d"] = "corrupted"
        lines2 = lines[:idx] + [json.dumps(ev)] + lines[idx + 1:]
        p = os.path.join(wd, "corrupt.trace.ndjson")
        open(p, "w").write("\n".join(lines2[: idx + 50]) + "\n")
        ok, info = vlib.validate_trace("Trace_ReverseObs", p, wd, name="Trace_bind")
        if ok:
            raise vlib.ToolError("binding demonstration failed: a corrupted rstep event was accepted")
        bind = {"corrupted_line": idx + 1, "rejected_at": info["rejected_at"]}
    side = read_ndjson(s2)
    for s in side[:3]:
        rep.sample({"src": s["src"], "moves": s["moves"][:80], "events": s["events"]})
    nontriv = len([s for s in side + read_ndjson(s1) if "b" in s["moves"] and s["events"] > 6])
    rep.add(states=states, transitions=trans,
            traces_validated_against_impl=sum1["runs"] + sum2["runs"],
            evaluations=sum1["events"] + sum2["events"], distinct_nontrivial=nontriv,
            trace_states=st1 + st2, enumerated_programs=len(all_cases), enumerated_programs_replayed=len(replayed), binding_demo=bind,
            rule="TLC: all forward/backward interleavings of every program of the listed fragments "
                 f"{FRAGS[tier]}; implementation: each of those programs plus {n} seeded whole-dictionary programs "
                 "stepped under 3 schedules (full forward/back/forward, random walk, back-k/forward-k from every "
                 "position); evaluations = recorded API calls; non-trivial = runs with at least one backward step and more than 6 events")
    rep.assumptions += ["the dump hook renders every component the property lists (ip, whole data stack, frames with locals, loop entries, builder marks, heap)",
                        "a failed forward step is not a step; one backward step after it may land on the current or the previous position (DESIGN 5.19)"]
    return rep.finish()


def replay(path):
    case = json.load(open(path))["case"]
    wd = workdir(PID, "replay")
    cases = os.path.join(wd, "one.ndjson")
    write_ndjson(cases, [{"src": case["src"].split(" ")}])
    rep = Report(PID, "quick", 1, "model_checking")
    for seed in (1, 2, 3):
        t, s = os.path.join(wd, "one.trace.ndjson"), os.path.join(wd, "one.side.ndjson")
        xv_json(["rev-record", t, s, "--cases", cases, str(seed)])
        validate(rep, wd, t, s, "replay")
    if rep.violations:
        print(f"VIOLATION property={PID} replay={path}")
        return 1
    print("replay: accepted")
    return 0
