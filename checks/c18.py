"""C18 - text encodings of binary data round-trip.

spec -> TLC:   spec/mc/MC_C18.tla generates the input matrix (byte strings of length 0..12 at every bit alignment and
               in every argument form; inputs >bitstr rejects; texts with never-valid characters).
impl -> spec:  every case is run through eval for the four codecs; the recorded events are validated by TLC against
               Trace_TextCodec, which learns bytes <-> text per codec and states determinism, injectivity, the round
               trip, nil for never-valid characters, no decode error ever, and rejection of what >bitstr rejects."""
import json, os
import vlib
from vlib import Report, run_tlc, tlc_must_pass, xv_json, read_ndjson, workdir

PID = "C18"


def run(tier, seed):
    rep = Report(PID, tier, seed, "exploration")
    wd = vlib.clean_workdir(PID)
    vlib.build_harness()
    outf = os.path.join(wd, "MC_C18.out")
    res = run_tlc("mc/MC_C18", "SPECIFICATION Spec\nINVARIANT Export\nCHECK_DEADLOCK FALSE\n", wd, name="MC_C18", timeout=1800, to_file=outf)
    tlc_must_pass(res, "MC_C18")
    t = os.path.join(wd, "codec.trace.ndjson")
    summ = xv_json(["textcodec-record", outf, t])
    os.remove(outf)
    lines = open(t).read().splitlines()

    def validate(path, label):
        found = []
        cur = path
        for rnd in range(25):
            ok, info = vlib.validate_trace("Trace_TextCodec", cur, wd, name="Trace_TextCodec_" + label)
            if ok:
                return info["states"], found
            ls = open(cur).read().splitlines()
            ln = min(info["rejected_at"], len(ls))
            found.append(json.loads(ls[ln - 1]))
            cur = path + f".r{rnd}"
            open(cur, "w").write("\n".join(ls[:ln - 1] + ls[ln:]) + "\n")
        vlib.log("note: more than 25 rejected codec events; the rest was not examined")
        return 0, found
    tstates, rejected = validate(t, "main")
    for ev in rejected:
        rep.violation(f"textcodec:{ev['codec']}:{ev['op']}:{ev.get('text', '')}:{ev.get('src', '')}",
                      f"{ev['codec']} {ev['op']}: {json.dumps(ev)[:300]} is not allowed by the round-trip algebra", ev)
    # binding demonstration: corrupt one decoded byte string
    idx = next(i for i, l in enumerate(lines) if '"op":"dec"' in l and '"bytes":[0,255]' in l)
    ev = json.loads(lines[idx]); ev["bytes"] = [0, 254]
    p = os.path.join(wd, "corrupt.ndjson"); open(p, "w").write("\n".join(lines[:idx] + [json.dumps(ev)]) + "\n")
    ok, info = vlib.validate_trace("Trace_TextCodec", p, wd, name="Trace_bind")
    if ok:
        raise vlib.ToolError("binding demonstration failed: a wrong decode result was accepted")
    ops = {}
    for l in lines:
        o = json.loads(l)["op"]; ops[o] = ops.get(o, 0) + 1
    rep.sample(json.loads(lines[8])); rep.sample(json.loads(lines[10]))
    rep.add(evaluations=summ["events"], distinct_nontrivial=ops.get("enc", 0), states=res["distinct"], transitions=res["generated"],
            traces_validated_against_impl=summ["cases"], ops=ops, trace_states=tstates, binding_demo={"rejected_at": info["rejected_at"]},
            rule="TLC generates: all byte strings of length 0..3 over {00,FF,41,80} and one pattern per length 4..12, each at bit alignments 0..7 (copying path) and as byte list / "
                 "nested vector / string; 7 inputs >bitstr rejects; 9 texts with never-valid characters (3 placements); x 4 codecs; each encoded text also decoded with each of its first 6 "
                 "characters deleted; distinct_nontrivial = successful encodings learned by the trace specification")
    rep.assumptions += ["the alphabets themselves are not fixed by the specification (a change of alphabet preserves the property)",
                        "a text made of alphabet characters but not produced by the encoder (e.g. one character deleted) may decode to nil or to some bytes; only an error or a panic is a violation there",
                        "fidelity of the third-party base32/base64/z85 crates beyond this algebra is outside the claim"]
    return rep.finish()


def replay(path):
    print(json.dumps(json.load(open(path))["case"])[:3000]); return 1
