"""C15 - how a program is driven does not change what it does.

spec -> TLC:   spec/mc/MC_C15.tla: six drive modes agree on the design for every generated program.
spec -> impl:  every enumerated program replayed in all six modes against the reference's prediction.
impl -> spec:  seeded whole-dictionary programs run in six modes; TLC validates that the six
               observations of each run are equal (Trace_TwinObs)."""
import json, os
import vlib
from vlib import Report, run_tlc, tlc_must_pass, extract_lines, write_ndjson, read_ndjson, xv_json, workdir
from checks.c01 import judge_cases

PID = "C15"
FRAGS = {"quick": [("zoo", 3), ("zoo2", 4), ("locloop", 7), ("mix", 3), ("do", 3), ("case", 3), ("late", 4)],
         "thorough": [("zoo", 4), ("zoo2", 5), ("locloop", 8), ("mix", 4), ("do", 4), ("case", 4), ("cond", 4), ("begin", 4), ("def", 5), ("late", 5)]}
RANDOM = {"quick": (1500, 40), "thorough": (8000, 50)}
MODES = [("eval", ""), ("eval", "rec"), ("compile_run", ""), ("compile_run", "rec"), ("compile_step", ""), ("compile_step", "rec")]

CFG = """SPECIFICATION Spec
CONSTANTS
  Frag = "%s"
  Budget = %d
  Legacy = {}
INVARIANT Export
CHECK_DEADLOCK FALSE
"""


def validate_twin(rep, wd, trace, side, label, what):
    sides = {s["run"]: s for s in read_ndjson(side)}

    def on_reject(rid, ln, ev, lines):
        s = sides.get(rid, {})
        # known finding: a user-defined immediate word, run while the source is being built, sees the data stack earlier
        # sources left under eval (same mode: shared base) but not under compile (the compile context hides it)
        modes = {m["mode"]: json.dumps(m.get("obs"), sort_keys=True) for m in s.get("modes", [])}
        src = s.get("src", "")
        if ("immediate" in src and src.startswith("[after") and modes.get("eval") == modes.get("eval+rec")
                and len({modes.get(k) for k in ("run", "run+rec", "step", "step+rec")}) == 1 and modes.get("eval") != modes.get("run")):
            rep.violation("immediate-prior-stack", f"{what}: `{src}` differs between eval and compile", s)
            return
        rep.violation(f"{label}:" + s.get("src", "?"), f"{what}: `{s.get('src')}` differs in variant {ev.get('mode')}", s)
    return vlib.validate_runs("Trace_TwinObs", trace, wd, on_reject, name="Trace_" + label)


def run(tier, seed):
    rep = Report(PID, tier, seed, "model_checking")
    wd = vlib.clean_workdir(PID)
    vlib.build_harness()
    states = trans = programs = 0
    for frag, budget in FRAGS[tier]:
        res = run_tlc("mc/MC_C15", CFG % (frag, budget), wd, name=f"MC_C15_{frag}", timeout=3000)
        tlc_must_pass(res, f"MC_C15 {frag}")
        lines = extract_lines(res["out"])
        bad = [l for l in lines if '"agree":false' in l]
        if bad:
            vlib.log("\n".join(bad[:5]))
            raise vlib.ToolError(f"the six drive modes disagree on the design for {len(bad)} programs of fragment {frag} (specification-level)")
        states += res["distinct"]; trans += res["generated"]
        cases = os.path.join(wd, f"cases_{frag}.ndjson")
        write_ndjson(cases, lines)
        for drive, rec in MODES:
            s = judge_cases(rep, cases, f"fragment {frag} mode {drive}{'+rec' if rec else ''}", drive, rec)
            programs += s["judged"]
        if lines:
            rep.sample(json.loads(lines[len(lines) // 3]))
    n, budget = RANDOM[tier]
    t, sd = os.path.join(wd, "rand.trace.ndjson"), os.path.join(wd, "rand.side.ndjson")
    summ = xv_json(["drive-record", t, sd, str(seed), str(n), str(budget)])
    tstates, rej = validate_twin(rep, wd, t, sd, "drive", "six drive modes")
    for s in read_ndjson(sd)[:2]:
        rep.sample({"src": s["src"], "eval_obs": s["modes"][0]["obs"]["res"]})
    rep.add(states=states, transitions=trans, traces_validated_against_impl=programs + summ["runs"],
            evaluations=programs + summ["events"], distinct_nontrivial=summ["ok_runs"], trace_states=tstates,
            rule=f"TLC: every program of fragments {FRAGS[tier]} in six modes on the design; implementation: each of them in six modes "
                 f"against the reference prediction, plus {n} seeded whole-dictionary programs whose six observations "
                 "(result with rendered error, visible stack, every variable and heap cell, stdout) must be equal; "
                 "non-trivial = random programs that run to completion without error in eval mode")
    rep.assumptions += ["instruction limit is set identically before each mode (set_insn_limit resets the meter)"]
    return rep.finish()


def replay(path):
    case = json.load(open(path))["case"]
    print(json.dumps(case)[:2000])
    return 1
