"""C13 - tags never change what a value does.

spec -> TLC:   spec/Words.tla (dictionary table: argument types, class) + spec/mc/MC_C13.tla generate the matrix
               word x subset of positions to tag x tag map (empty, one pair, formatting tag, tag on a tag) x depth
               (argument itself / element inside a container argument).
impl -> spec:  each case is run as a twin (untagged / tagged) on the real crate; the pair of observations (results
               rendered with all tags removed, error class, output, variables) is validated by TLC against
               Trace_TagObs: equal observations, and no tags on results of computing words."""
import json, os
import vlib
from vlib import Report, run_tlc, tlc_must_pass, xv_json, read_ndjson, workdir

PID = "C13"
CFG = "SPECIFICATION Spec\nINVARIANT Export\nCHECK_DEADLOCK FALSE\n"


def run(tier, seed):
    rep = Report(PID, tier, seed, "model_checking")
    wd = vlib.clean_workdir(PID)
    vlib.build_harness()
    outf = os.path.join(wd, "MC_C13.out")
    res = run_tlc("mc/MC_C13", CFG, wd, name="MC_C13", timeout=1800, to_file=outf)
    tlc_must_pass(res, "MC_C13")
    t, sd = os.path.join(wd, "twin.trace.ndjson"), os.path.join(wd, "twin.side.ndjson")
    summ = xv_json(["tags-record", outf, t, sd])
    sides = {s["run"]: s for s in read_ndjson(sd)}
    # vacuity guard: the untagged call of (nearly) every case must succeed, otherwise the matrix tests nothing
    if summ["ok_pairs"] < 0.9 * summ["pairs"]:
        raise vlib.ToolError(f"only {summ['ok_pairs']} of {summ['pairs']} untagged calls succeed: the argument samples of Words.tla no longer fit the dictionary")

    def on_reject(rid, ln, ev, lines):
        s = sides.get(rid, {})
        what = ("differs from the untagged call" if s.get("obs_plain") != s.get("obs_tagged") else "returns a result that carries tags")
        rep.violation("tags:" + s.get("tagged", "?"), f"`{s.get('tagged')}` {what} (`{s.get('plain')}`: {s.get('obs_plain', {}).get('res')}, tagged: {s.get('obs_tagged', {}).get('res')})", s)
    tstates, rej = vlib.validate_runs("Trace_TagObs", t, wd, on_reject, name="Trace_TagObs", max_rounds=30)
    for s in list(sides.values())[100:103]:
        rep.sample({"plain": s["plain"], "tagged": s["tagged"], "class": s["cls"]})
    rep.add(states=res["distinct"], transitions=res["generated"], traces_validated_against_impl=summ["pairs"], evaluations=2 * summ["pairs"],
            distinct_nontrivial=summ["ok_pairs"], exhaustive=True, trace_states=tstates,
            rule="TLC: every row of Words.tla (about 130 word/argument-type rows) x every non-empty subset of argument positions x 4 tag maps x 2 depths "
                 "(formatting tag not applied to the words that honour it); non-trivial = pairs whose untagged call succeeds")
    rep.assumptions += ["words that move or select existing cells may return the tagged cell; only computing words must return tag-free results",
                        "numbers read from binary input carry len/big tags by design",
                        "one sample value per argument type (type x tag position coverage, not value coverage)"]
    os.remove(outf)
    return rep.finish()


def replay(path):
    print(json.dumps(json.load(open(path))["case"])[:3000]); return 1
