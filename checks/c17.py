"""C17 - every error points at the token that caused it.

spec -> TLC:   spec/mc/MC_C17.tla: for every generated failing program the structural reference (Src.tla) gives the
               ground-truth failing token; TLC checks on the design that the debug map blames it (Aligned).
               spec/mc/MC_C17L.tla: the location function (line, column, quoted line) over all class prefixes.
spec -> impl:  each failing program laid out with varied separators (LF, CRLF, CR, tabs, blank lines, multi-byte text
               and comments in front, trailing lines), after 0-2 earlier sources: last_err_location() must name the
               right source, quote the failing token's exact byte range, its true line/column and its line;
               spec/mc/MC_C17D.tla: the same for failures while the source is still being built (meta blocks, immediate
               words) and in / right after injected and included sources;
               pretty_error() must not panic.  lex::token_location replayed in isolation on every class text."""
import json, os
import vlib
from vlib import Report, run_tlc, tlc_must_pass, xv_json, read_ndjson, workdir

PID = "C17"
FRAGS = {"quick": [("blame", 4), ("def", 4), ("do", 3)], "thorough": [("blame", 5), ("def", 5), ("do", 4), ("mix", 4), ("case", 4), ("zoo2", 4)]}
LOCLEN = {"quick": 4, "thorough": 5}
CFG = "SPECIFICATION Spec\nCONSTANTS\n  Frag = \"%s\"\n  Budget = %d\n  Legacy = {}\nINVARIANT Aligned\nINVARIANT Export\nCHECK_DEADLOCK FALSE\n"


def run(tier, seed):
    rep = Report(PID, tier, seed, "model_checking")
    wd = vlib.clean_workdir(PID)
    vlib.build_harness()
    states = trans = progs = layouts = 0
    for frag, budget in FRAGS[tier]:
        name = f"MC_C17_{frag}{budget}"
        outf = os.path.join(wd, name + ".out")
        res = run_tlc("mc/MC_C17", CFG % (frag, budget), wd, name=name, timeout=3000, to_file=outf)
        if res["violated"]:
            vlib.log(res["out"][-3000:]); raise vlib.ToolError("the design's debug map does not blame the failing token (specification-level)")
        tlc_must_pass(res, name)
        states += res["distinct"]; trans += res["generated"]
        mm = os.path.join(wd, name + ".mm.ndjson")
        s = xv_json(["loc-replay", outf, mm, "3"])
        progs += s["programs"]; layouts += s["layouts"]
        for m in read_ndjson(mm):
            rep.violation("loc:" + m["text"], f"source {json.dumps(m['text'])}: {m['why'][0]}", m)
        os.remove(outf)
    # failures while a source is still being built (meta blocks, immediate words) and in nested sources (~) , include)
    outf = os.path.join(wd, "MC_C17D.out")
    res = run_tlc("mc/MC_C17D", "SPECIFICATION Spec\nINVARIANT Export\nCHECK_DEADLOCK FALSE\n", wd, name="MC_C17D", timeout=600, to_file=outf)
    tlc_must_pass(res, "MC_C17D")
    states += res["distinct"]; trans += res["generated"]
    mm = os.path.join(wd, "nested.mm.ndjson")
    scratch = workdir(PID, "files")
    sn = xv_json(["locnest-replay", outf, mm, "3" if tier == "quick" else "8", scratch])
    progs += sn["programs"]; layouts += sn["layouts"]
    for m in read_ndjson(mm):
        rep.violation("locnest:" + m["text"], f"[{m['kind']}] source {json.dumps(m['text'])}: {m['why'][0]}", m)
    os.remove(outf)
    outf = os.path.join(wd, "MC_C17L.out")
    res = run_tlc("mc/MC_C17L", "SPECIFICATION Spec\nCONSTANTS\n  MaxLen = %d\nINVARIANT Sane\nINVARIANT Export\nCHECK_DEADLOCK FALSE\n" % LOCLEN[tier], wd, name="MC_C17L", timeout=3000, to_file=outf)
    tlc_must_pass(res, "MC_C17L")
    states += res["distinct"]; trans += res["generated"]
    mm = os.path.join(wd, "locfn.mm.ndjson")
    sl = xv_json(["locfn-replay", outf, mm])
    for m in read_ndjson(mm):
        if any(w.startswith("HARNESS") for w in m["why"]):
            raise vlib.ToolError("the harness's reference location function disagrees with the specification: " + json.dumps(m))
        rep.violation("locfn:" + m["text"], f"token_location on {json.dumps(m['text'])}: {m['why'][0]}", m)
    os.remove(outf)
    rep.sample({"source": ": f 1 0 / ; f", "failing token": "/", "layouts": "LF / CRLF / CR / tabs / multi-byte prefix / comment line / trailing line"})
    rep.sample({"class text": ["m3", "cr", "tab", "T"], "line": 0, "col": 1})
    rep.add(states=states, transitions=trans, traces_validated_against_impl=layouts + sl["texts"], evaluations=layouts + sl["texts"], distinct_nontrivial=progs,
            exhaustive=True,
            rule=f"TLC: every failing program of fragments {FRAGS[tier]} (run-time failures at top level, in branches, loops and called definitions; unknown words) "
                 f"with its ground-truth failing token, 3 layouts each; {sn['programs']} constructions with failures at build time (meta block, called from / loop in a meta block, "
                 f"immediate word) and in or right after injected (~)) and included text; location function over all prefixes of up to {LOCLEN[tier]} classes x 4 tails")
    rep.assumptions += ["a two-token construct (`local x`, `var x`, `! x`) may be blamed through either token",
                        "errors reported at the end of input (unbalanced structures) are not judged"]
    return rep.finish()


def replay(path):
    print(json.dumps(json.load(open(path))["case"])[:3000]); return 1
