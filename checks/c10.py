"""C10 - a source that fails to build has no effect on anything submitted afterwards.

spec -> TLC:   spec/mc/MC_C10.tla: twin-run (self-composition) over prior history x open structures x
               failing token x trailing text x probes x submission style, on the design of
               build_from / contexts / pending input / flow stack (Xeh.tla).
spec -> impl:  every scenario replayed as twin runs on the real crate (harness twin-replay):
               probes equal between the twins, shape restored, and equal to the design's prediction.
impl -> spec:  seeded long histories with corrupted sources; twin observations validated by TLC
               (Trace_TwinObs).  Thorough: the same twin scripts through the real `xeh` binary's REPL."""
import json, os, subprocess
import vlib
from vlib import Report, run_tlc, tlc_must_pass, extract_lines, write_ndjson, read_ndjson, xv_json, workdir

PID = "C10"
SAMPLE = {"quick": 3, "thorough": 0}
RANDOM = {"quick": (2500, 20), "thorough": (30000, 30)}
CFG = """SPECIFICATION Spec
CONSTANTS
  Legacy = {%s}
  Sample = %d
INVARIANT NoViolation
INVARIANT Export
CHECK_DEADLOCK FALSE
"""


def repl_twins(rep, wd, cases, limit):
    """Drive the real binary through stdin (what the REPL does: compile then run per line)."""
    tdir = os.path.join(vlib.WORK, "repo-target")
    p = subprocess.run(["cargo", "build", "--offline", "--quiet", "--manifest-path", os.path.join(vlib.REPO, "Cargo.toml"), "--target-dir", tdir],
                       stdout=subprocess.PIPE, stderr=subprocess.STDOUT, text=True,
                       env=dict(os.environ, RUSTFLAGS="-Awarnings", CARGO_NET_OFFLINE="true"))
    if p.returncode != 0:
        raise vlib.ToolError("cannot build the xeh binary: " + p.stdout[-500:])
    exe = os.path.join(tdir, "debug", "xeh")
    scratch = workdir(PID, "repl")
    done = 0

    def final_stack(lines):
        script = "\n".join(lines + ['"<<END>>" print newline']) + "\n"
        r = subprocess.run([exe], input=script, stdout=subprocess.PIPE, stderr=subprocess.PIPE, text=True, cwd=scratch, timeout=60)
        out = r.stdout
        return out.split('"<<END>>"\n')[-1] if '"<<END>>"' in out else "<<no end marker>> " + out[-200:]
    for c in cases:
        if c["kind"] != "build" or c["style"] != "repl" or c["verdict"].startswith("skip"):
            continue
        h1 = [" ".join(c["h1"])] if c["h1"] else []
        probes = [" ".join(p) for p in c["probes"]]
        a = final_stack(h1 + [" ".join(c["middle"])] + probes)
        b = final_stack(h1 + probes)
        done += 1
        if a != b:
            rep.violation("repl:" + " ".join(c["middle"]) + "|" + "|".join(probes),
                          f"REPL: after the rejected line `{' '.join(c['middle'])}` the lines {probes} print a different stack", {"with": a, "without": b, "case": c})
        if done >= limit:
            break
    return done


def run(tier, seed):
    rep = Report(PID, tier, seed, "model_checking")
    wd = vlib.clean_workdir(PID)
    vlib.build_harness()
    res = run_tlc("mc/MC_C10", CFG % ("", SAMPLE[tier]), wd, name="MC_C10", timeout=3000)
    if res["violated"]:
        vlib.log("\n".join(res["out"].splitlines()[-40:]))
        raise vlib.ToolError("the design violates the twin-run property (specification-level)")
    tlc_must_pass(res, "MC_C10")
    lines = extract_lines(res["out"])
    cases = os.path.join(wd, "cases.ndjson")
    write_ndjson(cases, lines)
    mm = os.path.join(wd, "mm.ndjson")
    s = xv_json(["twin-replay", cases, mm])
    for m in read_ndjson(mm):
        rep.violation(f"twin:{m['style']}|{m['h1']}|{m['middle']}|{'|'.join(m['probes'])}",
                      f"[{m['style']}] after `{m['h1']}`, the failing source `{m['middle']}`, then {m['probes']}: {'; '.join(m['why'])}", m)
    parsed = [json.loads(l) for l in lines]
    kinds = {}
    for c in parsed:
        kinds[c["verdict"]] = kinds.get(c["verdict"], 0) + 1
    rep.sample({k: parsed[len(parsed) // 2][k] for k in ("style", "h1", "middle", "probes", "verdict", "with")})
    # regression: the pinned design must be rejected by the model checker (the spec can see the defect)
    legacy = run_tlc("mc/MC_C10", CFG % ('"nounwind"', 7), wd, name="MC_C10_legacy", timeout=1200)
    if not legacy["violated"]:
        raise vlib.ToolError("regression configuration: the pinned (non-unwinding) design is no longer rejected - the model lost its teeth")
    n, budget = RANDOM[tier]
    t, sd = os.path.join(wd, "rand.trace.ndjson"), os.path.join(wd, "rand.side.ndjson")
    summ = xv_json(["twin-record", t, sd, str(seed), str(n), str(budget)])
    sides = {s["run"]: s for s in read_ndjson(sd)}

    def on_reject(rid, ln, ev, lines):
        s = sides.get(rid // 10, {})
        rep.violation(f"twinrec:{s.get('style')}|{s.get('h1')}|{s.get('bad')}",
                      f"[{s.get('style')}] after `{s.get('h1')}` the rejected source `{s.get('bad')}` changes what follows "
                      f"({'the state right after it' if rid % 10 == 0 else 'probe ' + str(rid % 10)})", s)
    tstates, rej = vlib.validate_runs("Trace_TwinObs", t, wd, on_reject, name="Trace_Twin")
    for sd_ in list(sides.values())[:2]:
        rep.sample({k: sd_[k] for k in ("style", "h1", "bad", "probes")})
    repl_n = repl_twins(rep, wd, parsed, 60 if tier == "quick" else 1500)
    rep.add(states=res["distinct"], transitions=res["generated"], traces_validated_against_impl=s["judged"] + summ["judged"] + repl_n,
            evaluations=s["judged"] + summ["judged"] + repl_n,
            distinct_nontrivial=kinds.get("ok-build", 0) + kinds.get("ok-runtime", 0), verdict_kinds=kinds, trace_states=tstates,
            repl_scripts=repl_n, legacy_design_rejected=True,
            rule="TLC: all scenarios (prior history 4 x open-structure prefix 14 x failing token 12 x trailing text 4 x probes 16 x style 2, "
                 f"sample stride {SAMPLE[tier]}; plus run-time failing sources) judged by twin-run on the design; implementation: every scenario as twin runs; "
                 f"{n} seeded histories with a corrupted source (judged when the source is rejected at build time); REPL scripts through the real binary; "
                 "non-trivial = scenarios in which the middle source really is rejected")
    rep.assumptions += ["buffer numbering (<buffer#N>) and heap addresses may differ between twins; behaviour is compared, not names",
                        "`const` overwriting an existing constant inside a later-failing meta block is not rolled back (not generated)"]
    return rep.finish()


def replay(path):
    case = json.load(open(path))["case"]
    print(json.dumps(case)[:3000])
    return 1
