"""C11 - meta-evaluation is sealed and equivalent to inlining its result.

spec -> TLC:   spec/mc/MC_C11.tla: constant expression x position x prior state x style on the design.
spec -> impl:  every scenario replayed: block vs inlined (twin), prediction, dictionary purge, compile purity.
impl -> spec:  seeded constant expressions (value computed by the implementation's own eval), block vs
               inlined twins validated by TLC (Trace_TwinObs)."""
import json, os
import vlib
from vlib import Report, run_tlc, tlc_must_pass, extract_lines, write_ndjson, read_ndjson, xv_json, workdir

PID = "C11"
RANDOM = {"quick": (15000, 10), "thorough": (150000, 14)}
CFG = "SPECIFICATION Spec\nCONSTANTS\n  Legacy = {}\nINVARIANT Export\nCHECK_DEADLOCK FALSE\n"


def run(tier, seed):
    rep = Report(PID, tier, seed, "model_checking")
    wd = vlib.clean_workdir(PID)
    vlib.build_harness()
    res = run_tlc("mc/MC_C11", CFG, wd, name="MC_C11", timeout=1800)
    tlc_must_pass(res, "MC_C11")
    lines = extract_lines(res["out"])
    bad = [l for l in lines if '"agree":false' in l]
    if bad:
        vlib.log("\n".join(bad[:5]))
        raise vlib.ToolError(f"the design violates C11 on {len(bad)} scenarios (specification-level)")
    cases = os.path.join(wd, "cases.ndjson"); write_ndjson(cases, lines)
    mm = os.path.join(wd, "mm.ndjson")
    s = xv_json(["meta-replay", cases, mm])
    for m in read_ndjson(mm):
        rep.violation(f"meta:{m['style']}|{m['prior']}|{m['with']}", f"[{m['style']}] after `{m['prior']}`: `{m['with']}` vs `{m['inlined']}`: {'; '.join(m['why'])}", m)
    c = json.loads(lines[len(lines) // 3]); rep.sample({k: c[k] for k in ("prior", "with", "inl", "style", "werr", "wvis")})
    n, budget = RANDOM[tier]
    t, sd = os.path.join(wd, "rand.trace.ndjson"), os.path.join(wd, "rand.side.ndjson")
    summ = xv_json(["meta-record", t, sd, str(seed), str(n), str(budget)])
    sides = {x["run"]: x for x in read_ndjson(sd)}

    def on_reject(rid, ln, ev, lines_):
        x = sides.get(rid, {})
        rep.violation(f"metarec:{x.get('with')}", f"[{x.get('style')}] `{x.get('with')}` behaves differently from `{x.get('inlined')}`", x)
    tstates, rej = vlib.validate_runs("Trace_TwinObs", t, wd, on_reject, name="Trace_Meta")
    for x in list(sides.values())[:2]:
        rep.sample({k: x[k] for k in ("style", "prior", "with", "inlined")})
    rep.add(states=res["distinct"], transitions=res["generated"], traces_validated_against_impl=s["judged"] + summ["judged"],
            evaluations=s["judged"] + summ["judged"], distinct_nontrivial=s["judged"] + summ["judged"], trace_states=tstates,
            multi_valued_random=summ["multi_valued"],
            rule="TLC: 22 constant expressions x 8 positions x 4 prior states x 2 styles on the design; implementation: every scenario "
                 f"(block vs inlined vs prediction, dictionary purge, compile purity) plus {n} seeded expressions at 7 positions; a case is "
                 "judged (non-trivial) when the expression evaluates, is printable as literals and, inside another meta block, is single-valued and stack-insensitive")
    rep.assumptions += ["inside another meta block the stack is shared and several values are not reversed (pinned by test_meta_stack / test_meta_meta); only single-valued, stack-insensitive blocks are judged there",
                        "the value of e is what the implementation's own eval gives for e on a fresh interpreter (random part) / what the design gives (enumerated part)"]
    return rep.finish()


def replay(path):
    print(json.dumps(json.load(open(path))["case"])[:3000]); return 1
