"""C16 - the lexer is total, loses no text, and reads literals as written.

spec -> TLC:   spec/Lexer.tla: all texts over 22 character classes up to a length; Progress, Tiling, Total on the design.
spec -> impl:  every class text concretised (several characters per class, 1-4 byte UTF-8) and lexed by Lex::next:
               kinds, spans, decoded strings, bit-string bits, integer values (sign/radix/digits), reals vs str::parse.
               Print/read: values enumerated by TLC with their predicted literal text (MC_C16P).
               Numerals around 2^63, 2^64, 2^127, 2^128 in every notation with the acceptance rule of MC_C16R.
impl -> spec:  seeded arbitrary UTF-8 incl. dictionary words and literals around the i128 limits, spans validated by TLC
               (Trace_Lexer: termination, progress, tiling)."""
import json, os
import vlib
from vlib import Report, run_tlc, tlc_must_pass, xv_json, read_ndjson, workdir

PID = "C16"
CONF = {"quick": [("Full", 4, 2)], "thorough": [("Full", 5, 2)]}
FUZZ = {"quick": 4000, "thorough": 60000}
CFG = "SPECIFICATION Spec\nCONSTANTS\n  MaxLen = %d\n  Alphabet <- %s\nINVARIANT Props\nINVARIANT Export\nCHECK_DEADLOCK FALSE\n"


def run(tier, seed):
    rep = Report(PID, tier, seed, "model_checking")
    wd = vlib.clean_workdir(PID)
    vlib.build_harness()
    states = trans = texts = conc = 0
    for alpha, maxlen, variants in CONF[tier]:
        name = f"MC_C16_{alpha}{maxlen}"
        outf = os.path.join(wd, name + ".out")
        res = run_tlc("mc/MC_C16", CFG % (maxlen, alpha), wd, name=name, timeout=3400, to_file=outf)
        if res["violated"]:
            vlib.log(res["out"][-2000:]); raise vlib.ToolError("Lexer.tla violates progress/tiling/totality (specification-level)")
        tlc_must_pass(res, name)
        states += res["distinct"]; trans += res["generated"]
        mm = os.path.join(wd, name + ".mm.ndjson")
        s = xv_json(["lex-replay", outf, mm, str(variants)], timeout=3400)
        texts += s["texts"]; conc += s["concretisations"]
        for m in read_ndjson(mm):
            rep.violation("lex:" + m["text"], f"text {json.dumps(m['text'])} (classes {' '.join(m['classes'])}): {m['why'][0]}", m)
        os.remove(outf)
    outf = os.path.join(wd, "MC_C16P.out")
    res = run_tlc("mc/MC_C16P", "SPECIFICATION Spec\nCONSTANTS\n  MaxBits = %d\nINVARIANT Export\nCHECK_DEADLOCK FALSE\n" % (9 if tier == "quick" else 12), wd, name="MC_C16P", timeout=3000, to_file=outf)
    tlc_must_pass(res, "MC_C16P")
    states += res["distinct"]; trans += res["generated"]
    mm = os.path.join(wd, "print.mm.ndjson")
    sp = xv_json(["print-replay", outf, mm])
    for m in read_ndjson(mm):
        rep.violation("print:" + json.dumps(m["value"]), f"value {json.dumps(m['value'])[:200]}: {m['why'][0]}", m)
    os.remove(outf)
    # numerals at the edge of the 128-bit range, in every radix notation / sign spelling / with separators
    outf = os.path.join(wd, "MC_C16R.out")
    res = run_tlc("mc/MC_C16R", "SPECIFICATION Spec\nINVARIANT Export\nCHECK_DEADLOCK FALSE\n", wd, name="MC_C16R", timeout=600, to_file=outf)
    tlc_must_pass(res, "MC_C16R")
    states += res["distinct"]; trans += res["generated"]
    mm = os.path.join(wd, "range.mm.ndjson")
    sr = xv_json(["lexrange-replay", outf, mm])
    for m in read_ndjson(mm):
        rep.violation("numeral:" + m["text"], f"numeral {m['text']}: {m['why'][0]}", m)
    os.remove(outf)
    t = os.path.join(wd, "fuzz.trace.ndjson")
    sf = xv_json(["lex-fuzz", t, str(seed), str(FUZZ[tier])])

    def on_reject(rid, ln, ev, lines):
        rep.violation("lexfuzz:" + ev["text"], f"text {json.dumps(ev['text'])}: ended={ev['ended']} calls={ev['calls']} covered={ev['covered']}/{ev['len']}: not total / not tiling", ev)
    tstates, rej = vlib.validate_runs("Trace_Lexer", t, wd, on_reject, name="Trace_Lexer")
    rep.sample({"classes": ["d0", "x", "hx", "sp", "dq", "al", "dq"], "concretised": "0xf \"q\"", "predicted": "int 15, ws, str"})
    rep.sample(json.loads(open(t).readline()))
    rep.add(states=states, transitions=trans, traces_validated_against_impl=conc + sp["values"] + sf["texts"] + sr["numerals"], evaluations=conc + sp["values"] + sf["texts"] + sr["numerals"],
            numerals_at_the_range_edge=sr["numerals"], numerals_accepted=sr["accepted"],
            distinct_nontrivial=texts, exhaustive=True, trace_states=tstates,
            rule=f"TLC: all class texts with (alphabet, max length, concretisations) {CONF[tier]}; print/read: all bit-strings up to 9/12 bits, an integer family, vectors and maps "
                 f"of those to depth 2 ({sp['values']} values); {FUZZ[tier]} seeded UTF-8 texts validated by TLC")
    rep.assumptions += ["a real literal denotes what str::parse::<f64> gives for its text without `_` (decimal-to-double conversion has no independent oracle in TLA+)",
                        "integer values in the class model stay below 2^31; literals around the i128 limits are exercised by the fuzz part (termination/tiling) and by C09's operands"]
    return rep.finish()


def replay(path):
    print(json.dumps(json.load(open(path))["case"])[:3000]); return 1
