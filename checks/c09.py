"""C09 - arithmetic, comparison and bitwise words follow exact integer / IEEE semantics.

spec -> TLC:   spec/Arith.tla: (law) at widths 4..6 every bit-level operator agrees with mathematical integer
               arithmetic for ALL operand pairs; (case) at W = 128 the same operators give the expected result of
               every word on a boundary family; (real) a small exact model of doubles incl. the special values;
               (types) the operand-type dispatch table and who is blamed.
spec -> impl:  every case replayed through eval.
impl -> spec:  random i128 pairs (boundary-biased) evaluated by the real crate, each judged by TLC at W = 128."""
import json, os
import vlib
from vlib import Report, run_tlc, tlc_must_pass, xv_json, read_ndjson, workdir

PID = "C09"
CONF = {"quick": dict(law=[4, 5], full="FALSE", nrand=400), "thorough": dict(law=[4, 5, 6], full="TRUE", nrand=6000)}
CFG = "SPECIFICATION Spec\nCONSTANTS\n  Mode = \"%s\"\n  W = %d\n  Full = %s\nINVARIANT %s\nCHECK_DEADLOCK FALSE\n"


def run(tier, seed):
    rep = Report(PID, tier, seed, "model_checking")
    wd = vlib.clean_workdir(PID)
    vlib.build_harness()
    conf = CONF[tier]
    states = trans = cases = 0
    for w in conf["law"]:
        res = run_tlc("mc/MC_C09", CFG % ("law", w, "FALSE", "Laws"), wd, name=f"MC_C09_law{w}", timeout=3000)
        if res["violated"]:
            vlib.log(res["out"][-3000:]); raise vlib.ToolError(f"Arith.tla disagrees with integer arithmetic at width {w} (specification-level)")
        tlc_must_pass(res, f"law W={w}")
        states += res["distinct"]; trans += res["generated"]
    for mode, w in (("case", 128), ("real", 8), ("types", 8)):
        outf = os.path.join(wd, f"MC_C09_{mode}.out")
        res = run_tlc("mc/MC_C09", CFG % (mode, w, conf["full"], "Export"), wd, name=f"MC_C09_{mode}", timeout=3400, to_file=outf)
        tlc_must_pass(res, mode)
        states += res["distinct"]; trans += res["generated"]
        mm = os.path.join(wd, f"mm_{mode}.ndjson")
        s = xv_json(["arith-replay", outf, mm])
        cases += s["judged"]
        for m in read_ndjson(mm):
            rep.violation("arith:" + m["src"], f"`{m['src']}`: {m['why'][0]}", m)
        rep.sample({"mode": mode, "judged": s["judged"]})
    t = os.path.join(wd, "rand.trace.ndjson")
    summ = xv_json(["arith-record", t, str(seed), str(conf["nrand"])])

    def on_reject(rid, ln, ev, lines):
        rep.violation("arithrec:" + ev["src"], f"`{ev['src']}` gave {json.dumps(ev['res'])[:200]}, which is not what Arith.tla computes at 128 bits", ev)
    tstates, rej = vlib.validate_runs("Trace_Arith", t, wd, on_reject, name="Trace_Arith", max_rounds=20)
    ev = json.loads(open(t).readline())
    rep.sample({"src": ev["src"], "res": ev["res"]["k"]})
    rep.add(states=states, transitions=trans, traces_validated_against_impl=cases + summ["events"], evaluations=cases + summ["events"],
            distinct_nontrivial=cases, exhaustive=True, trace_states=tstates,
            rule=f"law: all operand pairs at widths {conf['law']} (incl. every shift count); case: 16 binary + 7 unary words on the boundary family "
                 f"({'22' if conf['full'] == 'TRUE' else '12'} values incl. MIN, MAX, 2^k, 2^k+-1) and shifts by 0,1,7,63,64,65,126,127 at 128 bits; real: 13 values incl. zeros, "
                 f"infinities, NaN x 12 binary + 7 unary words; types: 7 operand types x all words; random: {conf['nrand']} pairs judged by TLC")
    rep.assumptions += ["rounding of inexact double operations is assumed from f64 (only exactly representable results are judged)",
                        "comparisons with NaN, ties of round and conversions of values outside the i128 range are left unspecified by the property and not judged"]
    return rep.finish()


def replay(path):
    print(json.dumps(json.load(open(path))["case"])[:3000]); return 1
