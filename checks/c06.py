"""C06 - parsing cursor: a read returns exactly the requested bits and advances that far.

spec -> TLC:   spec/Cursor.tla + spec/mc/MC_C06.tla: all sequences of parsing words up to a depth from three
               setups (fresh; unaligned big-endian sub-input; two suspended inputs, offset mid-slice), with
               in-range / boundary / out-of-range / HUGE arguments; invariants Inv, FailureIsClean, ReadIsExact,
               CloseRestores.
spec -> impl:  every maximal path replayed through eval, one word per call; offset, remain, input, stack and
               error class compared after each word (HUGE instantiated with 2^63-1 ... i128::MAX).
impl -> spec:  seeded sequences of 30 words on inputs up to 48 bits validated by TLC (Trace_Cursor)."""
import json, os
import vlib
from vlib import Report, run_tlc, tlc_must_pass, xv_json, read_ndjson, workdir

PID = "C06"
CONF = {"quick": [(1, 3), (2, 2), (3, 2), (4, 3)], "thorough": [(1, 3), (2, 3), (3, 3), (4, 4)]}
RANDOM = {"quick": (400, 30), "thorough": (8000, 40)}
CFG = """SPECIFICATION Spec
CONSTANTS
  MaxDepth = %d
  Setup = %d
INVARIANT Inv
INVARIANT FailureIsClean
INVARIANT ReadIsExact
INVARIANT CloseRestores
INVARIANT Export
CHECK_DEADLOCK FALSE
"""


def run(tier, seed):
    rep = Report(PID, tier, seed, "model_checking")
    wd = vlib.clean_workdir(PID)
    vlib.build_harness()
    states = trans = paths = steps = 0
    for setup, depth in CONF[tier]:
        name = f"MC_C06_s{setup}d{depth}"
        outf = os.path.join(wd, name + ".out")
        res = run_tlc("mc/MC_C06", CFG % (depth, setup), wd, name=name, timeout=3000, to_file=outf)
        if res["violated"]:
            vlib.log(res["out"][-3000:]); raise vlib.ToolError("Cursor.tla violates its own C06 invariants (specification-level)")
        tlc_must_pass(res, name)
        states += res["distinct"]; trans += res["generated"]
        mm = os.path.join(wd, name + ".mm.ndjson")
        s = xv_json(["cursor-replay", outf, mm], timeout=3000)
        paths += s["paths"]; steps += s["steps"]
        for m in read_ndjson(mm):
            rep.violation("cursor:" + " ; ".join(m["words"][: m["failed_at"] + 1]),
                          f"after `{' ; '.join(m['words'][:m['failed_at']])}` the word `{m['words'][m['failed_at']]}`: {'; '.join(m['why'])}", m)
        os.remove(outf)
    runs, ln = RANDOM[tier]
    t = os.path.join(wd, "rand.trace.ndjson")
    summ = xv_json(["cursor-record", t, str(seed), str(runs), str(ln)])

    def on_reject(rid, ln_, ev, lines):
        first = next(i for i, l in enumerate(lines) if json.loads(l).get("run") == rid)
        words = [json.loads(l).get("src", "reset") for l in lines[first:ln_]]
        rep.violation("cursortrace:" + " ; ".join(words), f"recorded sequence `{' ; '.join(words)}`: observed {ev.get('obs')} is not what Cursor.tla prescribes", {"words": words, "event": ev})
    tstates, rej = vlib.validate_runs("Trace_Cursor", t, wd, on_reject, name="Trace_Cursor")
    with open(t) as f:
        sample = [json.loads(next(f)) for _ in range(4)]
    rep.sample([{"src": e.get("src"), "obs": e.get("obs")} for e in sample[1:]])
    rep.add(states=states, transitions=trans, traces_validated_against_impl=paths + summ["runs"], evaluations=steps + summ["events"],
            distinct_nontrivial=paths, exhaustive=True, trace_states=tstates,
            rule=f"TLC: all word sequences of the 54-word alphabet from setups/depths {CONF[tier]}; every maximal path replayed (evaluations = words executed); "
                 f"plus {runs} seeded sequences of {ln} words validated against Cursor.tla")
    rep.assumptions += ["HUGE stands for sizes >= 2^63-1; any error is accepted for them, and nothing may move",
                        "float reads of 32/64 bits return values outside the model (only the error paths of float are judged here; C05 judges the values)"]
    return rep.finish()


def replay(path):
    print(json.dumps(json.load(open(path))["case"])[:3000]); return 1
