"""C07 - binary construction is the inverse of binary parsing.

spec -> TLC:   spec/Record.tla + spec/mc/MC_C07.tla: Inverse (length = sum of widths, parse-back returns the
               values, ends at the end) for every field list up to a length over 111 field shapes.
spec -> impl:  each list packed with the construction words (>bitstr and every emit split), parsed back.
impl -> spec:  seeded records of up to 20 random fields; TLC evaluates Pack / ParseOk on each event (Trace_Pack)."""
import json, os
import vlib
from vlib import Report, run_tlc, tlc_must_pass, xv_json, read_ndjson, workdir

PID = "C07"
CONF = {"quick": [(2, 1), (3, 41)], "thorough": [(2, 1), (3, 1)]}
RANDOM = {"quick": (600, 20), "thorough": (10000, 20)}
CFG = "SPECIFICATION Spec\nCONSTANTS\n  MaxFields = %d\n  Stride = %d\nINVARIANT Inverse\nINVARIANT Export\nCHECK_DEADLOCK FALSE\n"


def run(tier, seed):
    rep = Report(PID, tier, seed, "model_checking")
    wd = vlib.clean_workdir(PID)
    vlib.build_harness()
    states = trans = records = unaligned = 0
    for maxf, stride in CONF[tier]:
        name = f"MC_C07_f{maxf}s{stride}"
        outf = os.path.join(wd, name + ".out")
        res = run_tlc("mc/MC_C07", CFG % (maxf, stride), wd, name=name, timeout=3400, to_file=outf)
        if res["violated"]:
            vlib.log(res["out"][-3000:]); raise vlib.ToolError("Inverse fails on the specification itself")
        tlc_must_pass(res, name)
        states += res["distinct"]; trans += res["generated"]
        mm = os.path.join(wd, name + ".mm.ndjson")
        s = xv_json(["pack-replay", outf, mm], timeout=3400)
        records += s["records"]; unaligned += s["with_unaligned_field"]
        for m in read_ndjson(mm):
            rep.violation("pack:" + m["program"], f"`{m['program']}`: {m['why'][0]}", m)
        os.remove(outf)
    n, maxf = RANDOM[tier]
    t = os.path.join(wd, "rand.trace.ndjson")
    summ = xv_json(["pack-record", t, str(seed), str(n), str(maxf)])

    def on_reject(rid, ln, ev, lines):
        rep.violation("packrec:" + ev.get("src", "?"), f"`{ev.get('src', '?')[:400]}`: packed / parsed / remain / output do not satisfy Record.tla", ev)
    tstates, rej = vlib.validate_runs("Trace_Pack", t, wd, on_reject, name="Trace_Pack")
    first = json.loads(open(t).readline())
    rep.sample({"src": first["src"], "remain": first["remain"], "packed_len": len(first["packed"])})
    rep.add(states=states, transitions=trans, traces_validated_against_impl=records + summ["records"], evaluations=records + summ["records"],
            distinct_nontrivial=unaligned, exhaustive=True, trace_states=tstates,
            rule=f"TLC: all field lists with (max fields, export stride) {CONF[tier]} over 111 field shapes (10 widths incl. 127/128, signed/unsigned, both orders, 3 value "
                 f"patterns; raw bits, string, byte list); each exported list packed (>bitstr + every emit split) and parsed back; {n} seeded records of up to {maxf} "
                 "fields validated by TLC; non-trivial = records with at least one field starting off a byte boundary")
    rep.assumptions += ["float fields are judged by C05 (bit-exact round trip) and not repeated here"]
    return rep.finish()


def replay(path):
    print(json.dumps(json.load(open(path))["case"])[:3000]); return 1
